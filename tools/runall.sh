#!/bin/bash
# tools/runall.sh [tier] [seed]: run every registered check once, print one line each
TIER=${1:-quick}; export VERIF_SEED=${2:-1}
cd "$(dirname "$0")/.."
for i in $(seq -w 1 20); do
  S=$(date +%s); OUT=$(./check C$i --tier $TIER 2>&1 | cut -c1-250 | grep -E "^OK|^FAIL|^ERROR|VIOLATION|HARNESS" | head -3); echo "$OUT  [$(( $(date +%s)-S ))s]"
done
