"""Regenerate /verif/MANIFEST.json from the property modules present in vf/props (META dict of each)."""
import importlib, json, os, sys
HERE = os.path.dirname(os.path.dirname(os.path.abspath(__file__)))
sys.path.insert(0, HERE)
sys.path.insert(0, os.environ.get("FLOWDYN_REPO", "/repo"))
props = [json.loads(l) for l in open(os.path.join(HERE, "properties.jsonl"))]
checks, na = [], []
for p in props:
    pid = p["id"]
    path = os.path.join(HERE, "vf", "props", pid.lower() + ".py")
    if not os.path.exists(path):
        na.append(dict(property_id=pid, reason="generated check not built yet in this session (planned, see DESIGN.md section 5); not claimed until it is registered here"))
        continue
    mod = importlib.import_module("vf.props." + pid.lower())
    meta = getattr(mod, "META", {})
    checks.append(dict(
        property_id=pid,
        quick_cmd="./check %s --tier quick" % pid,
        thorough_cmd="./check %s --tier thorough" % pid,
        evidence_file="evidence/%s.json" % pid,
        replay_cmd_template="./check %s --replay {path}" % pid,
        engine="vf-hypothesis",
        level_claimed=dict(category="exploration",
                           text=meta.get("level_text", "generated-input search (Hypothesis) against an explicit oracle; decides the property on every generated case, never proves absence"),
                           design_ref=meta.get("design_ref", "DESIGN.md section 5, " + pid)),
        level_note=meta.get("level_note", "trusted: numpy/scipy arithmetic, Hypothesis generators, the oracle code in vf/oracles.py; sizes and step counts bounded as stated in the evidence file"),
        technique=meta.get("technique", "property-based testing (Hypothesis) with an independent oracle"),
    ))
man = dict(
    version=1,
    setup_cmd="./setup.sh",
    hooks=dict(guard="FLOWDYN_VERIF", enable="no source hooks are needed: checks import /repo's working tree directly (FLOWDYN_REPO=/repo) and observe public attributes; FLOWDYN_VERIF=1 is exported by ./check but read by nothing in /repo",
               baseline_off_cmd="cd /repo && /venv/bin/python -m pytest -ra -q -p no:cacheprovider --timeout=900 --continue-on-collection-errors",
               source_commits=[], add_only=True),
    engines=[dict(name="vf-hypothesis", path="vf/runner.py", serves_properties=[c["property_id"] for c in checks],
                  kind_free_text="Hypothesis 6.168 property-based testing (given + stateful), sharded over 16 processes, shrunk JSON replay files, regress tier of saved minimal inputs")],
    checks=checks,
    notes="All checks: ./check <ID> --tier quick|thorough, seed from VERIF_SEED; exit 0 held / 1 VIOLATION / 2 harness error. known_findings.json lists genuine defects (fixed ones with their fix: commit).",
    not_applicable=na,
)
json.dump(man, open(os.path.join(HERE, "MANIFEST.json"), "w"), indent=1)
print("checks:", [c["property_id"] for c in checks], "not claimed:", [n["property_id"] for n in na])
try:
    import jsonschema
    jsonschema.validate(man, json.load(open("/root/.vp/MANIFEST.schema.json")))
    for c in checks:
        ev = os.path.join(HERE, c["evidence_file"])
        if os.path.exists(ev):
            jsonschema.validate(json.load(open(ev)), json.load(open("/root/.vp/EVIDENCE.schema.json")))
    print("manifest and evidence validate")
except ImportError:
    pass
