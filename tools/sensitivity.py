"""Self-test of the checks: apply one textual mutation at a time to a scratch copy of the flowdyn package
(outside /repo and /verif), run the quick check of the properties expected to notice it with FLOWDYN_REPO pointing
at the copy, and report which mutants are killed.  Not a registered check.

    python tools/sensitivity.py [--only C02,C16] [--ids m1,m2] [--jobs 4] [--seeds 1]
"""
import argparse, json, os, shutil, subprocess, sys, tempfile, concurrent.futures

HERE = os.path.dirname(os.path.dirname(os.path.abspath(__file__)))
REPO = os.environ.get("FLOWDYN_REPO", "/repo")


def run_one(m, prop, seed, jobs):
    tmp = tempfile.mkdtemp(prefix="fdmut_")
    try:
        shutil.copytree(os.path.join(REPO, "flowdyn"), os.path.join(tmp, "flowdyn"), ignore=shutil.ignore_patterns("__pycache__"))
        path = os.path.join(tmp, m["file"])
        src = open(path).read()
        if src.count(m["old"]) < 1:
            return (m["id"], prop, seed, "STALE", "pattern not found")
        cnt = m.get("count", 1)
        src = src.replace(m["old"], m["new"], cnt)
        open(path, "w").write(src)
        env = dict(os.environ, FLOWDYN_REPO=tmp, VERIF_SEED=str(seed), VERIF_REPLAY_DIR=os.path.join(tmp, "replays"))
        r = subprocess.run([os.path.join(HERE, "check"), prop, "--tier", "quick", "--no-evidence", "--jobs", str(jobs)],
                           env=env, capture_output=True, text=True, timeout=1800)
        first = [l for l in r.stdout.splitlines() if "failing sub-check" in l or "HARNESS" in l][:1]
        return (m["id"], prop, seed, {0: "SURVIVED", 1: "KILLED", 2: "HARNESS-ERROR"}.get(r.returncode, "rc=%d" % r.returncode), (first[0].strip()[:160] if first else ""))
    finally:
        shutil.rmtree(tmp, ignore_errors=True)


def main():
    ap = argparse.ArgumentParser()
    ap.add_argument("--only", default=None)
    ap.add_argument("--ids", default=None)
    ap.add_argument("--jobs", type=int, default=4)
    ap.add_argument("--par", type=int, default=4)
    ap.add_argument("--seeds", default="1")
    a = ap.parse_args()
    muts = json.load(open(os.path.join(HERE, "mutants", "mutants.json")))
    todo = []
    for m in muts:
        if a.ids and m["id"] not in a.ids.split(","):
            continue
        for prop in m["props"]:
            if a.only and prop not in a.only.split(","):
                continue
            for seed in a.seeds.split(","):
                todo.append((m, prop, int(seed)))
    res = []
    with concurrent.futures.ThreadPoolExecutor(max_workers=a.par) as ex:
        futs = [ex.submit(run_one, m, prop, seed, a.jobs) for m, prop, seed in todo]
        for f in concurrent.futures.as_completed(futs):
            r = f.result()
            res.append(r)
            print("%-28s %-4s seed=%d %-13s %s" % r, flush=True)
    killed = sum(1 for r in res if r[3] == "KILLED")
    print("killed %d / %d" % (killed, len(res)))
    surv = sorted(set((r[0], r[1]) for r in res if r[3] != "KILLED"))
    if surv:
        print("not killed:", surv)


if __name__ == "__main__":
    main()
