#!/bin/bash
# tools/seedcheck.sh <PROP> [<name>] [check props...]: verify a seeded change produced by a sub-agent in /tmp/seed_<PROP> and run the checks against it
P=$1; NAME=${2:-$1}; shift; shift
CHECKS="${@:-$P}"
SRC=/tmp/seed_$P/seed
DST=/verif/seeded/$NAME
WT=/tmp/sv_$NAME
[ -f $SRC/patch.diff ] || { echo "no patch in $SRC"; exit 2; }
mkdir -p $DST && cp $SRC/patch.diff $SRC/demo.py $DST/ && cp $SRC/meta.json $DST/agent_meta.json 2>/dev/null
git -C /repo worktree remove --force $WT 2>/dev/null
git -C /repo worktree add -q $WT HEAD || exit 2
cd $WT
echo "== demo on clean tree (must pass)"; PYTHONPATH=$WT MPLBACKEND=Agg timeout 600 /venv/bin/python -B $DST/demo.py >/tmp/sv_$NAME.clean.log 2>&1; CLEAN=$?; echo "rc=$CLEAN"
git apply $DST/patch.diff || { echo "patch does not apply"; exit 2; }
echo "== tests with the change"; PYTHONPATH=$WT MPLBACKEND=Agg /venv/bin/python -B -m pytest -q -p no:cacheprovider tests -o addopts="" -n 8 2>&1 | tail -1 | tee /tmp/sv_$NAME.tests.log
echo "== demo with the change (must fail)"; PYTHONPATH=$WT MPLBACKEND=Agg timeout 600 /venv/bin/python -B $DST/demo.py >/tmp/sv_$NAME.mut.log 2>&1; MUT=$?; echo "rc=$MUT"; tail -2 /tmp/sv_$NAME.mut.log | cut -c1-300
cd /verif
RES=""
for C in $CHECKS; do
  echo "== check $C quick against the change"
  FLOWDYN_REPO=$WT VERIF_REPLAY_DIR=/tmp/sv_${NAME}_replays ./check $C --tier quick --no-evidence 2>&1 | cut -c1-400 | grep -E "failing|^OK|^FAIL|HARNESS" | head -4
  RC=${PIPESTATUS[0]}; RES="$RES $C:rc=$RC"
done
echo "SUMMARY $NAME clean_demo=$CLEAN mutated_demo=$MUT tests=$(cat /tmp/sv_$NAME.tests.log | tr -d '\n') checks:$RES"
git -C /repo worktree remove --force $WT
