#!/bin/bash
# tools/seedall.sh: apply every kept seeded change to a scratch worktree of /repo HEAD and run the quick check of its property (expects rc=1)
cd "$(dirname "$0")/.."
for d in seeded/*/; do
  N=$(basename $d); P=$(/venv/bin/python -c "import json;print(json.load(open('$d/meta.json'))['property'])")
  WT=/tmp/sa_$N; git -C /repo worktree remove --force $WT 2>/dev/null; git -C /repo worktree add -q $WT HEAD || continue
  if ! git -C $WT apply $PWD/$d/patch.diff 2>/dev/null; then echo "$N $P PATCH-DOES-NOT-APPLY"; git -C /repo worktree remove --force $WT; continue; fi
  FLOWDYN_REPO=$WT VERIF_REPLAY_DIR=/tmp/sa_replays_$N VERIF_SEED=${1:-1} ./check $P --tier quick --no-evidence >/tmp/sa_$N.log 2>&1; RC=$?
  ST=$(/venv/bin/python -c "import json;print(json.load(open('$d/meta.json')).get('status',''))")
  echo "$N $P rc=$RC $([ "$ST" = not-caught ] && echo '[documented: outside the input domain, not caught by design]') $(grep -m1 failing /tmp/sa_$N.log | cut -c1-140)"
  git -C /repo worktree remove --force $WT; rm -rf /tmp/sa_replays_$N
done
