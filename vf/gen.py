"""Hypothesis strategies producing JSON case descriptors (see vf/cases.py for their meaning).

Sound first: only inputs flowdyn documents or its callers use (positive rho/p/h, increasing faces,
a != 0, ...), by construction rather than by filtering.
"""
import math

from hypothesis import strategies as st

from vf import cases


def _snap(x):
    # values below 1e-9 in magnitude become exact zeros: subnormal-scale data only exercise underflow in the
    # harness' own relative comparisons (the exact zero, which matters to the code under test, is kept)
    return 0.0 if abs(x) < 1e-9 else x


def f(lo, hi):
    s = st.floats(lo, hi, allow_nan=False, allow_infinity=False)
    if lo <= 0.0 <= hi and (hi - lo) > 1e-6:
        s = s.map(_snap)
    return s


def logf(lo_exp, hi_exp):
    """10**U(lo,hi) with a bias to exact powers of ten / two"""
    return st.one_of(st.builds(lambda e: float(10.0 ** e), f(lo_exp, hi_exp)),
                     st.builds(lambda e: float(10.0 ** e), st.integers(math.ceil(lo_exp), math.floor(hi_exp))),
                     st.builds(lambda e: float(2.0 ** e), st.integers(math.ceil(lo_exp * 3.3), math.floor(hi_exp * 3.3))))


def sfloat(lo_exp, hi_exp):
    """0 or +/- 10**U(lo,hi): no subnormal / tiny values (they only exercise underflow of the harness arithmetic)"""
    return st.one_of(st.just(0.0), st.builds(lambda s, m: s * m, st.sampled_from([1.0, -1.0]), logf(lo_exp, hi_exp)))


# ----------------------------------------------------------------------------- meshes
def mesh_uniform(nmin=2, nmax=40, length=None, x0=None):
    return st.builds(lambda n, L, x0: dict(kind="uni", n=n, length=L, x0=x0),
                     st.integers(nmin, nmax), length or logf(-2, 2), x0 if x0 is not None else st.one_of(st.just(0.0), f(-10, 10)))


def mesh_faces(nmin=2, nmax=40, maxratio=100.0):
    e = math.log10(maxratio) / 2
    w = st.one_of(st.builds(lambda x: float(10.0 ** x), f(-e, e)), st.sampled_from([1.0, 2.0, 0.5, 0.1, 10.0]))
    return st.builds(lambda ws, sc, x0: dict(kind="faces", x0=x0, w=[float(x * sc) for x in ws]),
                     st.lists(w, min_size=nmin, max_size=nmax), logf(-2, 2), st.one_of(st.just(0.0), f(-10, 10)))


def mesh_morph(nmin=2, nmax=40):
    law = st.one_of(st.builds(lambda a: ("sine", a), f(-0.9, 0.9)),
                    st.builds(lambda p: ("power", p), f(0.5, 2.0)),
                    st.builds(lambda b: ("exp", b), st.one_of(f(-3, -0.1), f(0.1, 3))))
    return st.builds(lambda n, L, x0, lw: dict(kind="morph", n=n, length=L, x0=x0, law=lw[0], param=lw[1]),
                     st.integers(nmin, nmax), logf(-2, 2), st.one_of(st.just(0.0), f(-5, 5)), law)


def mesh_morph_moving(nmin=2, nmax=40):
    """morphed meshes whose image is NOT the nominal interval (mesh.length keeps the nominal value): an affine rescaling x0 + (1+eps)(x-x0) + delta L (equal
    cells, other extent) or x + b L sin(x/L)"""
    # affine: the stretch is chosen from the distance across the periodic seam it produces, seam = xc[0] + length - xc[-1] = s cells (s = 1: the nominal mesh),
    # because flowdyn's periodic closure uses the nominal length: eps = n/(n-1+s) - 1
    law = st.one_of(st.builds(lambda sc, d: ("affine-seam", [sc, d]), st.one_of(f(0.25, 4.0), st.sampled_from([0.5, 2.0, 3.0])), st.one_of(st.just(0.0), f(-1, 1))),
                    st.builds(lambda b: ("wave", b), f(-0.5, 0.5)))

    def mk(n, L, x0, lw):
        if lw[0] == "affine-seam":
            sc, d = lw[1]
            return dict(kind="morph", n=n, length=L, x0=x0, law="affine", param=[n / (n - 1.0 + sc) - 1.0, d])
        return dict(kind="morph", n=n, length=L, x0=x0, law=lw[0], param=lw[1])
    return st.builds(mk, st.integers(nmin, nmax), logf(-2, 2), st.one_of(st.just(0.0), f(-5, 5)), law)


def mesh_refined(nmin=2, nmax=40):
    return st.builds(lambda n, L, r, a, b: dict(kind="refined", n=n, length=L, ratio=r, a=a, b=b),
                     st.integers(nmin, nmax), logf(-2, 2), st.one_of(logf(-1, 1), st.sampled_from([0.5, 1.0, 2.0])),
                     st.integers(1, 4), st.integers(1, 4))


def mesh_any(nmin=2, nmax=40):
    return st.one_of(mesh_uniform(nmin, nmax), mesh_faces(nmin, nmax), mesh_morph(nmin, nmax), mesh_refined(max(nmin, 2), nmax))


def mesh_big():
    """occasional large meshes for operator-level checks (size-dependent fast paths, chunking)"""
    n = st.sampled_from([129, 300, 1025])
    return st.one_of(st.builds(lambda n, L, x0: dict(kind="uni", n=n, length=L, x0=x0), n, logf(-2, 2), st.one_of(st.just(0.0), f(-10, 10))),
                     st.builds(lambda n, L, a: dict(kind="morph", n=n, length=L, x0=0.0, law="sine", param=a), n, logf(-2, 2), f(-0.9, 0.9)),
                     st.builds(lambda n, L, r: dict(kind="refined", n=n, length=L, ratio=r, a=1, b=2), n, logf(-2, 2), logf(-1, 1)))


def mesh_any_or_big(nmin=2, nmax=40, weight=8):
    return st.one_of(*([mesh_any(nmin, nmax)] * weight + [mesh_big()]))


def mesh2d(nmin=1, nmax=8):
    return st.builds(lambda nx, ny, lx, ly: dict(nx=nx, ny=ny, lx=lx, ly=ly),
                     st.integers(nmin, nmax), st.integers(nmin, nmax), logf(-1, 1), logf(-1, 1))


# ----------------------------------------------------------------------------- profiles
def prof_const(v):
    return st.builds(lambda x: dict(k="const", v=x), v)


def prof_vals(v, nmin=2, nmax=13):
    return st.builds(lambda x: dict(k="vals", v=x), st.lists(v, min_size=nmin, max_size=nmax))


def prof_steps(v):
    return st.builds(lambda lv, br: dict(k="steps", levels=lv, breaks=sorted(br)),
                     st.lists(v, min_size=2, max_size=4), st.lists(f(0.05, 0.95), min_size=1, max_size=3))


def prof_fourier(mean, amp, kmax=3):
    mode = st.tuples(amp, st.integers(1, kmax), f(0, 1)).map(list)
    return st.builds(lambda m, md: dict(k="fourier", mean=m, modes=md), mean, st.lists(mode, min_size=1, max_size=3))


def prof_saw(mean, amp):
    return st.builds(lambda m, a, p: dict(k="saw", mean=m, amp=a, period=p), mean, amp, st.integers(2, 9))


def prof_rough(lo, hi):
    """bounded rough data: random values, steps, sawtooth, smooth - all within [lo,hi]"""
    mid, half = 0.5 * (lo + hi), 0.5 * (hi - lo)
    v = st.one_of(f(lo, hi), st.sampled_from([lo, hi, mid]))
    return st.one_of(prof_vals(v), prof_steps(v), prof_const(v),
                     prof_fourier(st.just(mid), f(0, half / 3.0)), prof_saw(st.just(mid), f(-half, half)))


def prof_smooth(mean_lo, mean_hi, amp):
    """smooth data with relative variation bounded by amp (sum of <=3 low modes, each amp/3)"""
    return st.one_of(prof_fourier(f(mean_lo, mean_hi), f(0, amp / 3.0), kmax=2),
                     prof_const(f(mean_lo, mean_hi)))


# ----------------------------------------------------------------------------- models and states
def model_convection():
    a = st.one_of(st.sampled_from([1.0, -1.0, 2.0, -0.5]), st.builds(lambda s, m: s * m, st.sampled_from([1.0, -1.0]), logf(-2, 2)))
    return st.builds(lambda a: dict(name="convection", a=a), a)


def model_burgers():
    return st.just(dict(name="burgers"))


def model_shallowwater():
    return st.builds(lambda g: dict(name="shallowwater", g=g), st.one_of(st.just(9.81), logf(-1, 2), st.sampled_from([981.0, 32.2, 1.0, 0.01])))


# usual values, arbitrary ones, and values a hair away from the usual ones (1.66667 is how 5/3 is often typed): exponents such as gamma/(gamma-1) are then close to,
# but not at, the "nice" numbers
GAMMAS = st.one_of(st.sampled_from([1.4, 5.0 / 3.0, 1.1, 2.0, 1.2]), f(1.05, 2.0), st.sampled_from([1.66667, 1.666667, 1.400004, 1.99999, 1.25001, 1.3999996, 1.3333]))


def model_euler1d():
    return st.builds(lambda g: dict(name="euler1d", gamma=g), GAMMAS)


def model_euler2d():
    return st.builds(lambda g: dict(name="euler2d", gamma=g), GAMMAS)


def section_law(varying=True):
    const = st.builds(lambda A: dict(law="const", A=A), logf(-2, 2))
    if not varying:
        return const
    return st.one_of(
        st.builds(lambda A0, A1: dict(law="linear", A0=A0 + 120 * abs(A1), A1=A1), logf(-1, 1), f(-0.5, 0.5)),      # positive for |x| <= 120 (meshes reach |x| <= 110)
        st.builds(lambda A0, amp, xm, w: dict(law="tanh", A0=A0, amp=amp, xm=xm, w=w), logf(-1, 1), f(-0.8, 0.8), f(-1, 2), logf(-1, 0.5)),
        st.builds(lambda A0, amp, xm, w: dict(law="gauss", A0=A0, amp=amp, xm=xm, w=w), logf(-1, 1), f(-2.0, 0.8), f(-1, 2), logf(-1, 0.5)),
        st.builds(lambda A0, c1, xm: dict(law="poly", A0=A0, c1=c1, xm=xm), logf(-1, 1), f(0.0, 3.0), f(-1, 2)),
        const)


def model_nozzle(varying=False):
    return st.builds(lambda g, s: dict(name="nozzle", gamma=g, section=s), GAMMAS, section_law(varying))


def state_scalar(rough=True, lo=-2.0, hi=2.0, special=True):
    sp = st.sampled_from([x for x in [-2.0, -1.0, 0.0, 0.5, 1.0, 2.0] if lo <= x <= hi] or [lo, hi])
    if not rough:
        prof = prof_smooth(lo, hi, 0.3)
    elif special:
        prof = st.one_of(prof_rough(lo, hi), prof_vals(sp), prof_steps(sp))
    else:
        prof = prof_rough(lo, hi)
    return st.builds(lambda u: dict(u=u), prof)


def state_burgers_spiky():
    """positive Burgers data with isolated fast cells over a slow background (ratios up to 100): the CFL time step changes by large factors between
    consecutive iterations while the peaks decay"""
    v = st.one_of(f(0.02, 0.2), f(0.02, 0.2), f(0.02, 0.2), f(1.0, 2.0))
    return st.builds(lambda u: dict(u=u), prof_vals(v, 3, 13))


def state_euler(rough=True, lnrange=3.0, machmax=3.0, smooth_amp=0.1):
    """lnrho, lnp profiles (natural log) and Mach profile"""
    if rough:
        ln = prof_rough(-lnrange, lnrange)
        mach = st.one_of(prof_rough(-machmax, machmax), prof_const(st.sampled_from([0.0, 1.0, -1.0, 0.5])))
    else:
        ln = prof_smooth(-lnrange, lnrange, smooth_amp)
        mach = prof_smooth(-machmax, machmax, smooth_amp)
    return st.builds(lambda r, p, m: dict(lnrho=r, lnp=p, mach=m), ln, ln, mach)


def state_sw(rough=True, lnrange=3.0, frmax=3.0, smooth_amp=0.1, machmax=None):
    frmax = machmax if machmax is not None else frmax
    if rough:
        ln = prof_rough(-lnrange, lnrange)
        fr = st.one_of(prof_rough(-frmax, frmax), prof_const(st.sampled_from([0.0, 1.0, -1.0])))
    else:
        ln = prof_smooth(-lnrange, lnrange, smooth_amp)
        fr = prof_smooth(-frmax, frmax, smooth_amp)
    return st.builds(lambda h, m: dict(lnh=h, froude=m), ln, fr)


def _not_zero_profile(sd):
    u = sd["u"]
    k = u["k"]
    if k == "const":
        return u["v"] != 0
    if k == "vals":
        return any(x != 0 for x in u["v"])
    if k == "steps":
        return any(x != 0 for x in u["levels"])
    if k == "fourier":
        return u["mean"] != 0 or any(m[0] != 0 for m in u["modes"])
    if k == "saw":
        return u["mean"] != 0 or u["amp"] != 0
    return True


def state_for(model_desc, rough=True, **kw):
    n = model_desc["name"]
    if n == "burgers":      # Burgers' time step is CFL*dx/|u|: data must not be identically zero
        return state_scalar(rough).filter(_not_zero_profile)
    if n == "convection":
        return state_scalar(rough)
    if n == "shallowwater":
        return state_sw(rough, **kw)
    return state_euler(rough, **kw)


# 2-D
def prof2d_rough(lo, hi):
    mid, half = 0.5 * (lo + hi), 0.5 * (hi - lo)
    v = st.one_of(f(lo, hi), st.sampled_from([lo, hi, mid]))
    mode = st.tuples(f(0, half / 3.0), st.integers(0, 2), st.integers(0, 2), f(0, 1)).map(list)
    return st.one_of(prof_vals(v, 2, 17), prof_const(v),
                     st.builds(lambda md: dict(k="fourier2d", mean=mid, modes=md), st.lists(mode, min_size=1, max_size=3)))


def prof2d_smooth(lo, hi, amp):
    mode = st.tuples(f(0, amp / 3.0), st.integers(0, 2), st.integers(0, 2), f(0, 1)).map(list)
    return st.builds(lambda m, md: dict(k="fourier2d", mean=m, modes=md), f(lo, hi), st.lists(mode, min_size=1, max_size=3))


def state_euler2d(rough=True, lnrange=2.0, machmax=2.5, smooth_amp=0.1):
    if rough:
        ln = prof2d_rough(-lnrange, lnrange)
        mach = prof2d_rough(0.0, machmax)
        ang = prof2d_rough(-math.pi, math.pi)
    else:
        ln = prof2d_smooth(-lnrange, lnrange, smooth_amp)
        mach = prof2d_smooth(0.0, machmax, smooth_amp)
        ang = prof2d_smooth(-math.pi, math.pi, smooth_amp)
    return st.builds(lambda r, p, m, a: dict(lnrho=r, lnp=p, mach=m, angle=a), ln, ln, mach, ang)


# ----------------------------------------------------------------------------- reconstructions
LIMITERS = ["minmod", "vanalbada", "vanleer", "superbee"]


def num_unlimited():
    return st.one_of(st.sampled_from([dict(name="extrapol2"), dict(name="extrapol3"), dict(name="centered"),
                                      dict(name="fromm"), dict(name="quick")]),
                     st.builds(lambda k: dict(name="extrapolk", k=k), st.one_of(f(-1, 1), st.sampled_from([-1.0, 0.0, 1.0 / 3.0, 0.5, 1.0]))))


def num_muscl():
    return st.builds(lambda l: dict(name="muscl", limiter=l), st.sampled_from(LIMITERS))


def num_first():
    return st.just(dict(name="extrapol1"))


def num_any():
    return st.one_of(num_first(), num_unlimited(), num_muscl())


def num_robust():
    """reconstructions that keep face states admissible for rough positive data"""
    return st.one_of(num_first(), num_muscl())


def num2d_any():
    return st.one_of(st.just(dict(name="extrapol2d1")),
                     st.builds(lambda k: dict(name="extrapol2dk", k=k), st.one_of(f(-1, 1), st.sampled_from([-1.0, 0.0, 1.0 / 3.0, 1.0]))))


# ----------------------------------------------------------------------------- integrators
def integrators(explicit=True, implicit=True):
    ex, im = cases.integrator_names()
    pool = (ex if explicit else []) + (im if implicit else [])
    return st.sampled_from(pool)
