"""Helpers that assemble a complete 1-D / 2-D problem from a case descriptor and advance it.

A 1-D problem descriptor:
  model  (cases.build_model)   mesh (cases.build_mesh)   num   flux   bcL bcR   state   [integ] [cfl]
"""
import numpy as np

from vf import cases


class Problem(object):
    pass


def problem1d(case, state_key="state", model_desc=None):
    P = Problem()
    md = model_desc or case["model"]
    P.md = md
    P.model = cases.build_model(md)
    P.mesh = cases.build_mesh(case["mesh"])
    P.xf = np.asarray(P.mesh.xf, dtype=float)
    P.n = len(P.xf) - 1
    P.dxf = P.xf[1:] - P.xf[:-1]
    bcL = cases.bc_clean(case.get("bcL", {"type": "per"}))
    bcR = cases.bc_clean(case.get("bcR", {"type": "per"}))
    P.disc = cases.build_disc(P.model, P.mesh, case["num"], case.get("flux"), bcL, bcR)
    smd = md if md["name"] != "nozzle" else dict(name="euler1d", gamma=md.get("gamma", 1.4))
    P.smd = smd
    P.prim = apply_units(smd, cases.prim_state(smd, case[state_key], cases.norm_coord(P.xf)), case.get("units"))
    P.cons = cases.cons_from_prim(smd, P.prim)
    P.field = cases.build_field(P.model, P.mesh, P.cons)
    return P


def apply_units(md, prim, units):
    """the state expressed in other density / velocity units, units = [ka, kb] (powers of ten): Euler rho*a, u*b, p*a*b^2; shallow water h*b^2, u*b (g kept);
    Burgers u*b; convection unchanged (its speed is a model parameter)"""
    if not units or md["name"] == "convection":
        return prim
    a, b = 10.0 ** units[0], 10.0 ** units[1]
    name = md["name"]
    if name == "burgers":
        return [prim[0] * b]
    if name == "shallowwater":
        return [prim[0] * b * b, prim[1] * b]
    if name == "euler2d":
        return [prim[0] * a, prim[1] * b, prim[2] * a * b * b]
    return [prim[0] * a, prim[1] * b, prim[2] * a * b * b]


def with_units(strat_fn):
    """the cases of a strategy, part of them expressed in other density / velocity units (key 'units', read by problem1d / problem2d)"""
    from hypothesis import strategies as st
    return lambda tier: st.builds(lambda c, u: dict(c, units=u), strat_fn(tier), units_strategy())


def units_strategy():
    from hypothesis import strategies as st
    return st.one_of(st.none(), st.none(), st.tuples(st.integers(-6, 6), st.integers(-6, 4)).map(list))


def problem2d(case, state_key="state"):
    P = Problem()
    md = case["model"]
    P.md = P.smd = md
    P.model = cases.build_model(md)
    P.mesh = cases.build_mesh2d(case["mesh2d"])
    nx, ny = case["mesh2d"]["nx"], case["mesh2d"]["ny"]
    P.nx, P.ny = nx, ny
    P.n = nx * ny
    P.sx = ((np.arange(P.n) % nx) + 0.5) / nx
    P.sy = ((np.arange(P.n) // nx) + 0.5) / ny
    P.dx, P.dy = case["mesh2d"]["lx"] / nx, case["mesh2d"]["ly"] / ny
    bclist = {t: cases.bc_clean(case["bc"][t]) for t in ("left", "right", "bottom", "top")}
    P.disc = cases.build_disc2d(P.model, P.mesh, case["num"], case.get("flux"), bclist)
    P.prim = apply_units(md, cases.prim_state(md, case[state_key], P.sx, P.sy), case.get("units"))
    P.cons = cases.cons_from_prim(md, P.prim)
    P.field = cases.build_field(P.model, P.mesh, P.cons)
    return P


def calm_field(P):
    """a much slower problem on the same mesh and model: fluid at rest and 400x colder / shallower (wave speeds / 20), Burgers data / 20.  Its CFL time step
    is ~20x that of the problem under test."""
    name = P.smd["name"]
    prim = [np.array(x, dtype=float, copy=True) for x in P.prim]
    if name == "convection":
        pass
    elif name == "burgers":
        prim = [prim[0] / 20.0]
    elif name == "shallowwater":
        prim = [prim[0] / 400.0, 0.0 * prim[1]]
    else:
        prim = [prim[0], 0.0 * prim[1], prim[2] / 400.0]
    return cases.build_field(P.model, P.mesh, cases.cons_from_prim(P.smd, prim))


def solver_history(case):
    """what the solver object did BEFORE the computation under test - a pure function of the case (replayable): 0 nothing (half of the cases), 1 one
    iteration with the per-cell time-step directive and another CFL number, 2 two iterations of a much slower problem (large time steps), 3 a short
    computation with save times and a monitor, 4 one iteration from the same data in reverse cell order"""
    import zlib
    from vf.runner import canonical
    return [0, 0, 0, 1, 2, 3, 4][zlib.crc32(canonical(case).encode()) % 7]


def preuse_solver(P, solver, case, cfl, variant=None):
    """Integrator objects are reused (parameter studies, continuation runs): give `solver` a past before it serves the computation under test.  solve() starts a
    new computation, so on the unchanged tree none of this can matter.  Returns the variant applied (0 = fresh)."""
    v = solver_history(case) if variant is None else variant
    name = getattr(solver, "__class__").__name__
    try:
        if v == 1 and "gear" not in name:
            solver.solve(P.field.copy(), 0.5 * cfl, stop={"maxit": 1}, directives={"dtlocal": True})
        elif v == 2:
            solver.solve(calm_field(P), cfl, stop={"maxit": 2})
        elif v == 3:
            f = P.field.copy()
            dt = float(np.min(P.disc.calc_timestep(f, 0.7 * cfl)))
            if np.isfinite(dt) and dt > 0:
                # (iteration limit: flowdyn's solve() never returns once a time step is NaN, e.g. after an unstable step of this preliminary run)
                solver.solve(f, 0.7 * cfl, [f.time + 0.4 * dt, f.time + 1.7 * dt], stop={"maxit": 8}, monitors={"residual": {"frequency": 1}})
        elif v == 4:
            # one iteration from the same data in reverse cell order (same time, same iteration number, same integrals - another state)
            g = P.field.copy()
            for d in g.data:
                d[...] = d[..., ::-1].copy()
            solver.solve(g, cfl, stop={"maxit": 1})
        else:
            return 0
    except (np.linalg.LinAlgError, FloatingPointError, ValueError, ZeroDivisionError):
        return -1            # the preliminary computation itself failed (e.g. infinite local time step): the solver still has a past
    return v


def copy_data(f):
    return [np.array(d, dtype=float, copy=True) for d in f.data]


def advance(solver, disc, f, cfl, dtlocal=False):
    """one step exactly as solve() takes it: dt = min over cells of the CFL step of the current state"""
    dtloc = disc.calc_timestep(f, cfl)
    dt = dtloc if dtlocal else min(dtloc)
    solver.step(f, dt)
    return dt


def admissible(md, data):
    """conservative data are finite with positive density/pressure/depth"""
    name = md["name"]
    for d in data:
        if not np.all(np.isfinite(d)):
            return False
    if name in ("convection", "burgers"):
        return True
    if name == "shallowwater":
        return bool(np.all(data[0] > 0))
    p = cases.prim_from_cons(md if name != "nozzle" else dict(name="euler1d", gamma=md.get("gamma", 1.4)), data)
    return bool(np.all(p[0] > 0) and np.all(p[2] > 0))


def natural_scales(md, prim):
    """per-equation flux scale  rho*(|u|+c)^k  (arrays per cell) for residual comparisons"""
    name = md["name"]
    if name == "convection":
        u = np.abs(prim[0])
        return [abs(md["a"]) * (np.max(u) + 1e-300) + 0 * u]
    if name == "burgers":
        u = np.abs(prim[0])
        return [np.max(u) ** 2 + 1e-300 + 0 * u]
    if name == "shallowwater":
        g = md.get("g", 9.81)
        a = np.abs(prim[1]) + np.sqrt(g * prim[0])
        return [np.max(prim[0] * a) + 0 * a, np.max(prim[0] * a * a) + 0 * a]
    g = md.get("gamma", 1.4)
    c = np.sqrt(g * prim[2] / prim[0])
    if name == "euler2d":
        a = np.sqrt(prim[1][0] ** 2 + prim[1][1] ** 2) + c
    else:
        a = np.abs(prim[1]) + c
    r = prim[0]
    return [np.max(r * a) + 0 * a, np.max(r * a * a) + 0 * a, np.max(r * a ** 3) + 0 * a]


def amplification(make_solver, f, qsc, cfl, nsteps, directives=None, rel=1e-7):
    """growth factor of a small perturbation over the same run (see C03): a linearly unstable scheme amplifies round-off
    differences between two mathematically equivalent runs by about this factor.  inf if the perturbed run blows up."""
    g = f.copy()
    n = g.data[0].shape[-1]
    pat = np.sin(1.0 + 2.3 * np.arange(n)) + 0.3
    for k, d in enumerate(g.data):
        sc = qsc[min(k, len(qsc) - 1)]
        if d.ndim == 2:
            d += rel * sc * np.vstack([pat, -pat])
        else:
            d += rel * sc * pat * (1.0 if k != 1 else -1.0)
    try:
        r = make_solver().solve(g, cfl, stop={"maxit": nsteps}, directives=directives or {})[-1]
        r0 = make_solver().solve(f, cfl, stop={"maxit": nsteps}, directives=directives or {})[-1]
    except Exception:
        return float("inf")
    amp = 0.0
    for k, (d1, d0) in enumerate(zip(r.data, r0.data)):
        e = float(np.max(np.abs(np.asarray(d1) - np.asarray(d0)))) / (rel * qsc[min(k, len(qsc) - 1)])
        if e != e:
            return float("inf")
        amp = max(amp, e)
    return amp


def state_scales(md, prim):
    """natural magnitude of each conservative variable: flux scale / wave speed"""
    sc = natural_scales(md, prim)
    name = md["name"]
    if name == "convection":
        a = abs(md["a"])
    elif name == "burgers":
        a = float(np.max(np.abs(prim[0]))) + 1e-300
    elif name == "shallowwater":
        a = float(np.max(np.abs(prim[1]) + np.sqrt(md.get("g", 9.81) * prim[0])))
    else:
        c = np.sqrt(md.get("gamma", 1.4) * prim[2] / prim[0])
        v = np.sqrt(prim[1][0] ** 2 + prim[1][1] ** 2) if name == "euler2d" else np.abs(prim[1])
        a = float(np.max(v + c))
    return [float(np.max(x)) / a for x in sc], a


class TieWatch(object):
    """Burgers only: the upwind flux is discontinuous exactly at a sonic-expansion tie (uL = -uR < 0 at a face, flux 0 at the tie
    and uL^2/2 on either side).  Two mathematically equivalent runs that differ by round-off can then differ by O(1).  This wrapper
    records whether any operator evaluation saw face states within 1e-9 of such a tie, so metamorphic checks can skip the history."""

    def __init__(self, disc):
        self.disc = disc
        self.hit = False
        self._orig = disc.rhs
        disc.rhs = self._rhs

    def _rhs(self, field):
        out = self._orig(field)
        l, r = np.asarray(self.disc.pL[0], dtype=float), np.asarray(self.disc.pR[0], dtype=float)
        m = max(float(np.max(np.abs(l))), float(np.max(np.abs(r)))) + 1e-300
        if np.any((l < 0) & (r > 0) & (np.abs(l + r) <= 1e-9 * m)):
            self.hit = True
        return out

    def release(self):
        try:
            del self.disc.rhs
        except AttributeError:
            pass


def nonfinite_operator(num_desc):
    """the space operator returned a non-finite residual on admissible cell data: with a first-order reconstruction the face states
    are the cell states, so this is a failure of the code; with extrapolating reconstructions the face states may have left the
    admissible set (negative pressure), which is outside the domain of the properties -> skipped and counted."""
    from vf.runner import Skip, Violation
    if cases.num_is_first_order(num_desc):
        raise Violation("operator-finite", "the space operator is not finite on admissible data with a first-order reconstruction")
    raise Skip("inadmissible_reconstruction (extrapolated face state outside the admissible set)")
