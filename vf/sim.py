"""Helpers that assemble a complete 1-D / 2-D problem from a case descriptor and advance it.

A 1-D problem descriptor:
  model  (cases.build_model)   mesh (cases.build_mesh)   num   flux   bcL bcR   state   [integ] [cfl]
"""
import numpy as np

from vf import cases


class Problem(object):
    pass


def problem1d(case, state_key="state", model_desc=None):
    P = Problem()
    md = model_desc or case["model"]
    P.md = md
    P.model = cases.build_model(md)
    P.mesh = cases.build_mesh(case["mesh"])
    P.xf = np.asarray(P.mesh.xf, dtype=float)
    P.n = len(P.xf) - 1
    P.dxf = P.xf[1:] - P.xf[:-1]
    bcL = cases.bc_clean(case.get("bcL", {"type": "per"}))
    bcR = cases.bc_clean(case.get("bcR", {"type": "per"}))
    P.disc = cases.build_disc(P.model, P.mesh, case["num"], case.get("flux"), bcL, bcR)
    smd = md if md["name"] != "nozzle" else dict(name="euler1d", gamma=md.get("gamma", 1.4))
    P.smd = smd
    P.prim = cases.prim_state(smd, case[state_key], cases.norm_coord(P.xf))
    P.cons = cases.cons_from_prim(smd, P.prim)
    P.field = cases.build_field(P.model, P.mesh, P.cons)
    return P


def problem2d(case, state_key="state"):
    P = Problem()
    md = case["model"]
    P.md = P.smd = md
    P.model = cases.build_model(md)
    P.mesh = cases.build_mesh2d(case["mesh2d"])
    nx, ny = case["mesh2d"]["nx"], case["mesh2d"]["ny"]
    P.nx, P.ny = nx, ny
    P.n = nx * ny
    P.sx = ((np.arange(P.n) % nx) + 0.5) / nx
    P.sy = ((np.arange(P.n) // nx) + 0.5) / ny
    P.dx, P.dy = case["mesh2d"]["lx"] / nx, case["mesh2d"]["ly"] / ny
    bclist = {t: cases.bc_clean(case["bc"][t]) for t in ("left", "right", "bottom", "top")}
    P.disc = cases.build_disc2d(P.model, P.mesh, case["num"], case.get("flux"), bclist)
    P.prim = cases.prim_state(md, case[state_key], P.sx, P.sy)
    P.cons = cases.cons_from_prim(md, P.prim)
    P.field = cases.build_field(P.model, P.mesh, P.cons)
    return P


def copy_data(f):
    return [np.array(d, dtype=float, copy=True) for d in f.data]


def advance(solver, disc, f, cfl, dtlocal=False):
    """one step exactly as solve() takes it: dt = min over cells of the CFL step of the current state"""
    dtloc = disc.calc_timestep(f, cfl)
    dt = dtloc if dtlocal else min(dtloc)
    solver.step(f, dt)
    return dt


def admissible(md, data):
    """conservative data are finite with positive density/pressure/depth"""
    name = md["name"]
    for d in data:
        if not np.all(np.isfinite(d)):
            return False
    if name in ("convection", "burgers"):
        return True
    if name == "shallowwater":
        return bool(np.all(data[0] > 0))
    p = cases.prim_from_cons(md if name != "nozzle" else dict(name="euler1d", gamma=md.get("gamma", 1.4)), data)
    return bool(np.all(p[0] > 0) and np.all(p[2] > 0))


def natural_scales(md, prim):
    """per-equation flux scale  rho*(|u|+c)^k  (arrays per cell) for residual comparisons"""
    name = md["name"]
    if name == "convection":
        u = np.abs(prim[0])
        return [abs(md["a"]) * (np.max(u) + 1e-300) + 0 * u]
    if name == "burgers":
        u = np.abs(prim[0])
        return [np.max(u) ** 2 + 1e-300 + 0 * u]
    if name == "shallowwater":
        g = md.get("g", 9.81)
        a = np.abs(prim[1]) + np.sqrt(g * prim[0])
        return [np.max(prim[0] * a) + 0 * a, np.max(prim[0] * a * a) + 0 * a]
    g = md.get("gamma", 1.4)
    c = np.sqrt(g * prim[2] / prim[0])
    if name == "euler2d":
        a = np.sqrt(prim[1][0] ** 2 + prim[1][1] ** 2) + c
    else:
        a = np.abs(prim[1]) + c
    r = prim[0]
    return [np.max(r * a) + 0 * a, np.max(r * a * a) + 0 * a, np.max(r * a ** 3) + 0 * a]
