"""JSON case descriptors  ->  flowdyn objects (the code under test) and plain numpy data.

Nothing here judges anything; oracles live in vf/oracles.py.  Every builder is a pure
function of its descriptor (no RNG, no clock).
"""
import collections
import math

import numpy as np

# ----------------------------------------------------------------------------- meshes


def faces_of(desc):
    """face coordinates implied by a mesh descriptor, computed WITHOUT flowdyn (oracle side).
    only for kinds whose faces are defined by the descriptor itself."""
    k = desc["kind"]
    if k == "uni":
        n, L, x0 = desc["n"], desc["length"], desc.get("x0", 0.0)
        return x0 + L * np.arange(n + 1) / n
    if k == "faces":
        return desc["x0"] + np.concatenate([[0.0], np.cumsum(np.array(desc["w"], dtype=float))])
    if k == "morph":
        n, L, x0 = desc["n"], desc["length"], desc.get("x0", 0.0)
        return morph_fn(desc)(x0 + L * np.arange(n + 1) / n)
    raise ValueError(k)


def morph_fn(desc):
    """monotone maps of [x0, x0+L] onto itself"""
    L, x0, law, par = desc["length"], desc.get("x0", 0.0), desc["law"], desc.get("param", 0.5)

    def s_of(x):
        return (np.asarray(x, dtype=float) - x0) / L
    if law == "identity":
        return lambda x: np.asarray(x, dtype=float)
    if law == "sine":      # s + a/(2 pi) sin(2 pi s), |a|<1
        return lambda x: x0 + L * (s_of(x) + par / (2 * math.pi) * np.sin(2 * math.pi * s_of(x)))
    if law == "power":     # s**p, p>0
        return lambda x: x0 + L * np.clip(s_of(x), 0.0, None) ** par
    if law == "exp":       # (exp(b s)-1)/(exp(b)-1), b != 0
        return lambda x: x0 + L * np.expm1(par * s_of(x)) / np.expm1(par)
    if law == "affine":    # does NOT map the interval onto itself: stretch by (1+eps) about x0 and shift by delta*L (the image is another interval)
        eps, delta = par
        return lambda x: np.asarray(x, dtype=float) + delta * L + eps * (np.asarray(x, dtype=float) - x0)
    if law == "wave":      # x + b L sin(x / L): the classic stretched mesh of the test-suite; end faces move unless x0 and x0+L are multiples of pi L
        return lambda x: np.asarray(x, dtype=float) + par * L * np.sin(np.asarray(x, dtype=float) / L)
    raise ValueError(law)


def as_written(x, *key):
    """a whole-number parameter as users write it: length=10, x0=-4, gamma=2, convcoef=1 are Python ints in half of the cases (deterministic coin)"""
    import zlib
    if isinstance(x, float) and x.is_integer() and abs(x) < 2 ** 31 and zlib.crc32(repr((x, key)).encode()) % 2 == 0:
        return int(x)
    return x


def build_mesh(desc):
    import flowdyn.mesh as fmesh
    k = desc["kind"]
    if k == "uni":
        return fmesh.unimesh(ncell=desc["n"], length=as_written(desc["length"], "L", desc["n"]), x0=as_written(desc.get("x0", 0.0), "x0", desc["n"]))
    if k == "refined":
        return fmesh.refinedmesh(ncell=desc["n"], length=as_written(desc["length"], "L", desc["n"]), ratio=as_written(desc["ratio"], "r", desc["n"]),
                                 nratioa=desc["a"], nratiob=desc["b"])
    if k == "faces":
        xf = faces_of(desc)
        n = len(xf) - 1
        # arbitrary monotone faces through the public morphing constructor; the pre-image length is
        # made equal to the image length so that the periodic closure (which uses mesh.length) is consistent
        return fmesh.morphedmesh(ncell=n, length=float(xf[-1] - xf[0]), x0=float(xf[0]),
                                 morph=lambda x, _xf=xf: np.array(_xf, dtype=float))
    if k == "morph":
        return fmesh.morphedmesh(ncell=desc["n"], length=desc["length"], x0=desc.get("x0", 0.0), morph=morph_fn(desc))
    raise ValueError(k)


def build_mesh2d(desc):
    import flowdyn.mesh2d as fmesh2d
    return fmesh2d.unimesh(desc["nx"], desc["ny"], as_written(desc.get("lx", 1.0), "lx", desc["nx"]), as_written(desc.get("ly", 1.0), "ly", desc["ny"]))


def mesh_ncell(desc):
    if desc["kind"] == "faces":
        return len(desc["w"])
    return desc["n"]


# ----------------------------------------------------------------------------- profiles
def profile(desc, s):
    """expand a profile descriptor on normalised cell coordinates s in (0,1) (array of n values)"""
    n = len(s)
    k = desc["k"]
    if k == "const":
        return np.full(n, float(desc["v"]))
    if k == "vals":      # explicit values, tiled cyclically
        v = np.array(desc["v"], dtype=float)
        return v[np.arange(n) % len(v)].copy()
    if k == "steps":     # piecewise constant: levels[j] for s in [breaks[j-1], breaks[j])
        br = np.sort(np.array(desc["breaks"], dtype=float))
        lv = np.array(desc["levels"], dtype=float)
        idx = np.searchsorted(br, s, side="right")
        return lv[idx % len(lv)].copy()
    if k == "fourier":   # mean + sum amp*sin(2 pi (kw s + phase))
        out = np.full(n, float(desc["mean"]))
        for amp, kw, ph in desc["modes"]:
            out = out + amp * np.sin(2 * math.pi * (kw * s + ph))
        return out
    if k == "saw":       # sawtooth over cell index
        per = max(2, int(desc["period"]))
        i = np.arange(n) % per
        return desc["mean"] + desc["amp"] * (i / (per - 1.0) - 0.5)
    if k == "lin":       # a + b s
        return desc["a"] + desc["b"] * s
    raise ValueError(k)


def profile2d(desc, sx, sy):
    """2-D profiles on flattened (row-wise) normalised cell coordinates"""
    k = desc["k"]
    n = len(sx)
    if k == "const":
        return np.full(n, float(desc["v"]))
    if k == "vals":
        v = np.array(desc["v"], dtype=float)
        return v[np.arange(n) % len(v)].copy()
    if k == "fourier2d":
        out = np.full(n, float(desc["mean"]))
        for amp, kx, ky, ph in desc["modes"]:
            out = out + amp * np.sin(2 * math.pi * (kx * sx + ky * sy + ph))
        return out
    if k == "alongx":    # 1-D profile repeated on each row
        return profile(desc["p"], sx)
    if k == "alongy":
        return profile(desc["p"], sy)
    raise ValueError(k)


def norm_coord(xf):
    xf = np.asarray(xf, dtype=float)
    xc = 0.5 * (xf[1:] + xf[:-1])
    return (xc - xf[0]) / (xf[-1] - xf[0])


# ----------------------------------------------------------------------------- models
def section_fn(desc):
    law = desc["law"]
    if law == "const":
        A = float(desc["A"])
        return lambda x: A + 0.0 * np.asarray(x, dtype=float)
    if law == "linear":
        return lambda x: desc["A0"] + desc["A1"] * np.asarray(x, dtype=float)
    if law == "tanh":
        return lambda x: desc["A0"] * (1.0 + desc["amp"] * np.tanh((np.asarray(x, dtype=float) - desc["xm"]) / desc["w"]))
    if law == "gauss":   # throat
        return lambda x: desc["A0"] * (1.0 - desc["amp"] * np.exp(-((np.asarray(x, dtype=float) - desc["xm"]) / desc["w"]) ** 2))
    if law == "poly":
        return lambda x: desc["A0"] * (1.0 + desc["c1"] * (np.asarray(x, dtype=float) - desc["xm"]) ** 2)
    raise ValueError(law)


def source_fn(desc, ieq, dim=1):
    """S(x,q) = c0 + cx*x + sum_j cq[j]*q_j  (scalars equations; 1-D)"""
    if desc is None:
        return None
    if desc.get("scalar") is not None and False:
        return None
    c0, cx, cq = desc.get("c0", 0.0), desc.get("cx", 0.0), desc.get("cq", [])
    mode = desc.get("mode", "fresh")
    if mode == "view":
        # the source IS one of the conserved variables: the function returns the state array it was given (no copy), e.g. S_mass = rho u
        j = desc["var"]
        return lambda x, q, j=j: q[j]
    if mode == "ratio":
        # a state-dependent source that does not change when the whole state is scaled: a drag proportional to the velocity, k * q1 / q0
        k = desc.get("c0", 1.0)
        return lambda x, q, k=k: k * q[1] / q[0]
    if mode == "table":
        # tabulated source: the same array object is returned at every call (the user's table must never be modified)
        cache = {}

        def T(x, q, c0=c0, cx=cx, cache=cache):
            if "t" not in cache or not np.array_equal(cache["x"], x):        # one table per set of positions
                cache["x"] = np.array(x, dtype=float, copy=True)
                cache["t"] = c0 + cx * np.asarray(x, dtype=float)
                cache["keep"] = cache["t"].copy()
            return cache["t"]
        T.cache = cache
        return T

    def S(x, q, c0=c0, cx=cx, cq=cq):
        out = c0 + cx * np.asarray(x, dtype=float)
        for j, c in enumerate(cq):
            if c != 0.0 and j < len(q):
                out = out + c * q[j]
        return out
    return S


def source_value(desc, x, q):
    """oracle-side evaluation of the same source descriptor"""
    if desc is None:
        return 0.0 * np.asarray(x, dtype=float)
    if desc.get("mode") == "view":
        return np.array(q[desc["var"]], dtype=float, copy=True)
    if desc.get("mode") == "ratio":
        return desc.get("c0", 1.0) * np.asarray(q[1], dtype=float) / np.asarray(q[0], dtype=float)
    if desc.get("mode") == "table":
        return desc.get("c0", 0.0) + desc.get("cx", 0.0) * np.asarray(x, dtype=float)
    out = desc.get("c0", 0.0) + desc.get("cx", 0.0) * np.asarray(x, dtype=float)
    for j, c in enumerate(desc.get("cq", [])):
        if c != 0.0 and j < len(q):
            out = out + c * np.asarray(q[j], dtype=float)
    return out


def build_sources(srcdesc):
    if srcdesc is None:
        return None
    return [source_fn(d, i) for i, d in enumerate(srcdesc)]


def _decoy_models(name, when):
    """Models are independent objects: scripts build several (a loop over gamma, g or the speed) before using any.  Other models of the same family,
    with other parameters, are therefore constructed BEFORE and AFTER every model under test (class-level or module-level state would leak)."""
    if name == "convection":
        import flowdyn.modelphy.convection as conv
        conv.model(-3.7 if when == "before" else 0.31)
    elif name == "burgers":
        import flowdyn.modelphy.burgers as burgers
        burgers.model()
    elif name == "shallowwater":
        import flowdyn.modelphy.shallowwater as sw
        sw.shallowwater1d(g=1.62 if when == "before" else 24.8)
    else:
        import flowdyn.modelphy.euler as euler
        g = 1.07 if when == "before" else 1.93
        euler.euler1d(gamma=g)
        euler.euler2d(gamma=g + 0.01)
        euler.nozzle(lambda x: 1.0 + 0.0 * x, gamma=g - 0.01)


def build_model(desc):
    _decoy_models(desc["name"], "before")
    model = _build_model(desc)
    _decoy_models(desc["name"], "after")
    return model


def _build_model(desc):
    name = desc["name"]
    if name == "convection":
        import flowdyn.modelphy.convection as conv
        return conv.model(as_written(desc["a"], "a"))
    if name == "burgers":
        import flowdyn.modelphy.burgers as burgers
        return burgers.model()
    if name == "shallowwater":
        import flowdyn.modelphy.shallowwater as sw
        return sw.shallowwater1d(g=as_written(desc.get("g", 9.81), "g"), source=build_sources(desc.get("source")))
    import flowdyn.modelphy.euler as euler
    if name == "euler1d":
        return euler.euler1d(gamma=as_written(desc.get("gamma", 1.4), "g1"), source=build_sources(desc.get("source")))
    if name == "nozzle":
        return euler.nozzle(section_fn(desc["section"]), gamma=as_written(desc.get("gamma", 1.4), "gn"), source=build_sources(desc.get("source")))
    if name == "euler2d":
        return euler.euler2d(gamma=as_written(desc.get("gamma", 1.4), "g2"), source=build_sources(desc.get("source")))
    raise ValueError(name)


def model_neq(desc):
    return {"convection": 1, "burgers": 1, "shallowwater": 2, "euler1d": 3, "nozzle": 3, "euler2d": 3}[desc["name"]]


def flux_names(desc):
    """registered numerical flux names of a model, discovered at run time"""
    name = desc["name"]
    if name in ("convection", "burgers"):
        return [None]
    if name == "euler2d":
        import flowdyn.modelphy.euler as euler
        return sorted(euler.euler2d._numfluxdict.dict.keys())
    m = build_model(dict(desc, source=None) if name != "nozzle" else dict(desc, source=None))
    return sorted(m._numfluxdict.dict.keys())


# ----------------------------------------------------------------------------- reconstructions
def build_num(desc):
    import flowdyn.xnum as xnum
    name = desc["name"]
    if name == "extrapolk":
        return xnum.extrapolk(desc["k"])
    if name == "muscl":
        return xnum.muscl(getattr(xnum, desc["limiter"]))
    if name == "extrapol2dk":
        return xnum.extrapol2dk(desc["k"])
    return getattr(xnum, name)()


def num_is_first_order(desc):
    return desc["name"] in ("extrapol1", "extrapol2d1")


def num_is_limited(desc):
    return desc["name"] == "muscl"


# ----------------------------------------------------------------------------- states
def prim_state(model_desc, state, s, sy=None):
    """primitive variables (list of arrays) from a state descriptor on n cells.
    convection/burgers: [u]; shallowwater: [h,u]; euler: [rho,u,p]; euler2d: [rho, (2,n), p]"""
    name = model_desc["name"]
    P = (lambda d: profile(d, s)) if sy is None else (lambda d: profile2d(d, s, sy))
    if name in ("convection", "burgers"):
        return [P(state["u"])]
    if name == "shallowwater":
        h = np.exp(P(state["lnh"]))
        fr = P(state["froude"])
        return [h, fr * np.sqrt(model_desc.get("g", 9.81) * h)]
    g = model_desc.get("gamma", 1.4)
    rho = np.exp(P(state["lnrho"]))
    p = np.exp(P(state["lnp"]))
    c = np.sqrt(g * p / rho)
    mach = P(state["mach"])
    if name == "euler2d":
        ang = P(state["angle"]) if "angle" in state else np.zeros_like(rho)
        V = np.vstack([mach * c * np.cos(ang), mach * c * np.sin(ang)])
        return [rho, V, p]
    return [rho, mach * c, p]


def cons_from_prim(model_desc, prim):
    """oracle-side conversion primitive -> conservative (independent of flowdyn)"""
    name = model_desc["name"]
    if name in ("convection", "burgers"):
        return [np.array(prim[0], dtype=float)]
    if name == "shallowwater":
        return [np.array(prim[0], dtype=float), prim[0] * prim[1]]
    g = model_desc.get("gamma", 1.4)
    rho, u, p = prim
    if name == "euler2d":
        v2 = u[0] ** 2 + u[1] ** 2
        return [np.array(rho, dtype=float), rho * u, p / (g - 1.0) + 0.5 * rho * v2]
    return [np.array(rho, dtype=float), rho * u, p / (g - 1.0) + 0.5 * rho * u ** 2]


def prim_from_cons(model_desc, q):
    name = model_desc["name"]
    if name in ("convection", "burgers"):
        return [np.array(q[0], dtype=float)]
    if name == "shallowwater":
        return [np.array(q[0], dtype=float), q[1] / q[0]]
    g = model_desc.get("gamma", 1.4)
    rho = np.array(q[0], dtype=float)
    u = q[1] / q[0]
    if name == "euler2d":
        v2 = u[0] ** 2 + u[1] ** 2
    else:
        v2 = u ** 2
    return [rho, u, (g - 1.0) * (q[2] - 0.5 * rho * v2)]


def build_field(model, mesh, cons, t=0.0, it=-1):
    import flowdyn.field as ffield
    return ffield.fdata(model, mesh, [np.array(c, dtype=float) for c in cons], t=t, it=it)


# ----------------------------------------------------------------------------- discretisation / integrators
def _preuse(num_desc, *key):
    """deterministic coin (a pure function of the case): is the reconstruction object first used elsewhere?"""
    import zlib
    return zlib.crc32(repr((sorted(num_desc.items()), key)).encode()) % 2 == 0


def preuse_num(num, mesh):
    """A reconstruction object is not tied to a mesh: user scripts build one and hand it to several discretisations.  Use it once on ANOTHER 1-D mesh
    with the same number of cells and the same end faces (a smoothly stretched distribution; uniform if the mesh itself is the stretched one) before
    it serves the operator under test."""
    import flowdyn.modeldisc as modeldisc
    import flowdyn.modelphy.convection as conv
    xf = np.asarray(mesh.xf, dtype=float)
    n = len(xf) - 1
    if n < 2:
        return
    s_ = np.linspace(0.0, 1.0, n + 1)
    xd = xf[0] + (xf[-1] - xf[0]) * (s_ + 0.3 * s_ * (1.0 - s_))
    xd[0], xd[-1] = xf[0], xf[-1]
    if not np.all(np.diff(xd) > 0):
        return
    decoy = mesh_from_faces(xd)
    m = conv.model(1.0)
    d = modeldisc.fvm(m, decoy, num, numflux=None, bcL={"type": "per"}, bcR={"type": "per"})
    d.rhs(build_field(m, decoy, [np.sin(1.0 + 2.3 * np.arange(n))]))


def preuse_num2d(num, model, nx, ny):
    """same in 2-D: the reconstruction object first serves a grid with other cell sizes and the transposed cell counts"""
    import flowdyn.modeldisc as modeldisc
    import flowdyn.modelphy.euler as euler
    m = euler.euler2d(gamma=1.4)
    # the transposed cell counts (same number of cells, other row length) when the grid is not square, one more column otherwise
    dnx, dny = (ny, nx) if nx != ny else (ny + 1, nx)
    decoy = build_mesh2d(dict(nx=dnx, ny=dny, lx=0.7, ly=1.9))
    per = {"type": "per"}
    d = modeldisc.fvm2d(m, decoy, num=num, numflux="hlle", bclist=dict(left=per, right=per, bottom=per, top=per))
    n = dnx * dny
    w = 1.0 + 0.1 * np.sin(1.0 + 2.3 * np.arange(n))
    d.rhs(build_field(m, decoy, m.prim2cons([w, np.vstack([0.1 * w, -0.2 * w]), w])))


_LATER = collections.deque(maxlen=4)


def build_disc(model, mesh, num_desc, flux, bcL, bcR):
    import flowdyn.modeldisc as modeldisc
    num = build_num(num_desc)
    if _preuse(num_desc, int(mesh.ncell), flux):
        preuse_num(num, mesh)
    # two sides with the same condition: scripts often pass ONE dictionary for both (bc = {'type': 'sym'}; fvm(..., bcL=bc, bcR=bc))
    if repr(bcL) == repr(bcR) and _preuse(num_desc, "bc", int(mesh.ncell)):
        bcR = bcL
    kw = dict(bcL=bcL, bcR=bcR)
    if bcL == {"type": "per"} and bcR == {"type": "per"} and _preuse(num_desc, "default-bc", int(mesh.ncell)):
        kw = {}         # periodic is the default of fvm: half of the periodic discretisations are built the way the README does, without bcL / bcR
    disc = modeldisc.fvm(model, mesh, num, numflux=flux, **kw)
    if _preuse(num_desc, "later-disc", int(mesh.ncell), flux):
        # a discretisation must not depend on discretisations constructed after it (parametric studies build all of them first): a second one, for
        # the same model and the same boundary-condition objects on a mesh of another size and extent, is built before the first is ever used
        import flowdyn.mesh as fmesh
        span = float(mesh.xf[-1] - mesh.xf[0])
        import copy
        import flowdyn.modelphy.base as mbase
        # a model whose initdisc() keeps mesh data (the nozzle: section law at the cell centres) is bound to its last discretisation by design: the later
        # discretisation then gets a copy of the model; every other model is shared
        later_model = model if type(model).initdisc is mbase.model.initdisc else copy.copy(model)
        _LATER.append(modeldisc.fvm(later_model, fmesh.unimesh(ncell=int(mesh.ncell) + 3, length=2.5 * span), build_num(num_desc), numflux=flux, **kw))
    return disc


def build_disc2d(model, mesh, num_desc, flux, bclist):
    import flowdyn.modeldisc as modeldisc
    num = build_num(num_desc)
    if _preuse(num_desc, int(mesh.nx), int(mesh.ny), flux):
        preuse_num2d(num, model, int(mesh.nx), int(mesh.ny))
    if _preuse(num_desc, "bc", int(mesh.nx), int(mesh.ny)):
        # sides with the same condition share ONE dictionary object
        seen, shared = {}, {}
        for tag in sorted(bclist):
            shared[tag] = seen.setdefault(repr(bclist[tag]), bclist[tag])
        bclist = shared
    return modeldisc.fvm2d(model, mesh, num=num, numflux=flux, bclist=bclist)


EXPLICIT = ["explicit", "rk2", "rk2_heun", "rk3_heun", "rk3ssp", "rk4", "lsrk25bb", "lsrk26bb", "lsrk4", "forwardeuler"]
IMPLICIT = ["implicit", "cranknicolson", "gear", "backwardeuler", "trapezoidal"]


def integrator_names():
    """every concrete integrator class exported by flowdyn.integration, discovered at run time"""
    import flowdyn.integration as integ
    expl, impl = [], []
    for nm in dir(integ):
        obj = getattr(integ, nm)
        if not isinstance(obj, type) or not issubclass(obj, integ.timemodel):
            continue
        if obj in (integ.timemodel, integ.rkmodel, integ.LSrkmodelHH, integ.implicitmodel):
            continue
        (impl if issubclass(obj, integ.implicitmodel) else expl).append(nm)
    return sorted(expl), sorted(impl)


def is_implicit(name):
    import flowdyn.integration as integ
    return issubclass(getattr(integ, name), integ.implicitmodel)


def build_integrator(name, mesh, disc, monitors=None):
    import flowdyn.integration as integ
    cls = getattr(integ, name)
    if monitors is None:
        return cls(mesh, disc)
    return cls(mesh, disc, monitors=monitors)


def bc_clean(bc):
    """deep copy of a BC descriptor (flowdyn only reads them, but keep the case immutable)"""
    out = {}
    for k, v in bc.items():
        out[k] = list(v) if isinstance(v, list) else v
    return out


def mesh_from_faces(xf):
    """1-D mesh with exactly these face coordinates (public morphing constructor; pre-image length = image length)"""
    import flowdyn.mesh as fmesh
    xf = np.array(xf, dtype=float)
    return fmesh.morphedmesh(ncell=len(xf) - 1, length=float(xf[-1] - xf[0]), x0=float(xf[0]), morph=lambda x, _xf=xf: _xf.copy())


def scale_mesh(desc, fac):
    """the same mesh in other length units (all lengths and the origin multiplied by fac)"""
    d = dict(desc)
    k = d["kind"]
    if k in ("uni", "morph"):
        d["length"] = d["length"] * fac
        d["x0"] = d.get("x0", 0.0) * fac
    elif k == "refined":
        d["length"] = d["length"] * fac
    elif k == "faces":
        d["x0"] = d["x0"] * fac
        d["w"] = [w * fac for w in d["w"]]
    return d
