"""entry point: python -m vf.cli <ID> ...  (keeps vf.runner a normally imported module)"""
import sys

if __name__ == "__main__":
    from vf import runner
    sys.exit(runner.main())
