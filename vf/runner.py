"""Common runner for the property-based checks of flowdyn.

    python -m vf.runner <ID> [--tier quick|thorough] [--replay file] [--only sub[,sub]] [--jobs N]

Contract (see /verif/DESIGN.md section 2):
  exit 0  property held on everything explored (KNOWN-FINDING lines may be printed)
  exit 1  a line "VIOLATION property=<id> replay=<path>" was printed
  exit 2  harness error (no VIOLATION line): the check itself is broken, nothing is claimed
The evidence file evidence/<ID>.json is rewritten on every (non-replay) run.
"""
import argparse
import collections
import contextlib
import io
import concurrent.futures
import hashlib
import importlib
import json
import multiprocessing
import os
import sys
import time
import traceback
import warnings

HERE = os.path.dirname(os.path.dirname(os.path.abspath(__file__)))
REPO = os.path.abspath(os.environ.get("FLOWDYN_REPO", "/repo"))


def _setup_path():
    sys.dont_write_bytecode = True
    if REPO not in sys.path[:1]:
        sys.path.insert(0, REPO)
    for p in (HERE, os.path.join(HERE, ".deps")):
        if p not in sys.path:
            sys.path.append(p)


_setup_path()
os.environ.setdefault("MPLBACKEND", "Agg")

import numpy as np  # noqa: E402


# --------------------------------------------------------------------------------------
# public API for property modules
# --------------------------------------------------------------------------------------
class Violation(Exception):
    """The property's predicate is false for this case."""

    def __init__(self, predicate, message, detail=None):
        Exception.__init__(self, "%s: %s" % (predicate, message))
        self.predicate = predicate
        self.message = message
        self.detail = detail


class Skip(Exception):
    """The generated case turned out to be outside the admissible domain (counted, not judged)."""

    def __init__(self, reason):
        Exception.__init__(self, reason)
        self.reason = reason


class SubCheck(object):
    """One independent generated check of a property.

    strategy(tier) -> hypothesis strategy of JSON-serialisable case descriptors, or
    enumerate(tier) -> iterable of descriptors (finite enumeration, no hypothesis).
    check(case)    -> dict(nontrivial=bool, labels=[str,...]); raises Violation / Skip.
    """

    def __init__(self, name, check, strategy=None, enumerate=None, examples=None, shards=None,
                 doc=""):
        self.name = name
        self.check = check
        self.strategy = strategy
        self.enumerate = enumerate
        self.examples = examples or {"quick": 200, "thorough": 1000}
        self.shards = shards or {"quick": 2, "thorough": 16}
        self.doc = doc


_IN_HYPOTHESIS = [False]


_MARGINS = {}


def target(value, label):
    """Record the margin of a numeric predicate (worst value seen per label, reported in the evidence).
    hypothesis.target()/Phase.target is deliberately not used: with hypothesis 6.168 its hill-climbing optimiser
    (optimiser.hill_climb -> find_integer over simulated float draws) was observed to spin for >15 minutes without
    executing a single new example, which would make a check hang on an unchanged tree."""
    try:
        v = float(value)
    except Exception:
        return
    if v == v and abs(v) != float("inf"):
        if v > _MARGINS.get(label, float("-inf")):
            _MARGINS[label] = v


def require(cond, predicate, message, detail=None):
    if not cond:
        raise Violation(predicate, message, detail)


def canonical(case):
    return json.dumps(case, sort_keys=True, separators=(",", ":"), default=_json_default)


def _json_default(o):
    if isinstance(o, (np.floating,)):
        return float(o)
    if isinstance(o, (np.integer,)):
        return int(o)
    if isinstance(o, np.ndarray):
        return o.tolist()
    if isinstance(o, (np.bool_,)):
        return bool(o)
    raise TypeError(repr(o))


def case_hash(case):
    return hashlib.sha1(canonical(case).encode()).hexdigest()[:16]


# --------------------------------------------------------------------------------------
# failure classification
# --------------------------------------------------------------------------------------
def _flowdyn_frame(tb):
    """innermost traceback frame that lies in the flowdyn package under test (or None)"""
    found = None
    root = os.path.join(REPO, "flowdyn") + os.sep
    for fs in traceback.extract_tb(tb):
        fn = os.path.abspath(fs.filename)
        if fn.startswith(root):
            found = "%s:%s" % (os.path.relpath(fn, REPO), fs.name)
    return found


class Failure(object):
    def __init__(self, sub, case, predicate, message, tb_text, kind):
        self.sub = sub
        self.case = case
        self.predicate = predicate
        self.message = message
        self.tb_text = tb_text
        self.kind = kind  # 'violation' | 'exception'

    @property
    def bucket(self):
        return "%s|%s" % (self.sub, self.predicate)

    def to_json(self):
        return dict(subcheck=self.sub, case=self.case, predicate=self.predicate,
                    message=self.message, traceback=self.tb_text, kind=self.kind)


class HarnessError(Exception):
    pass


def classify_exception(sub, case, exc):
    """Violation -> Failure;  exception inside flowdyn -> Failure;  otherwise HarnessError."""
    tb_text = "".join(traceback.format_exception(type(exc), exc, exc.__traceback__))[-4000:]
    if isinstance(exc, Violation):
        return Failure(sub, case, exc.predicate, exc.message, tb_text, "violation")
    frame = _flowdyn_frame(exc.__traceback__)
    if frame is not None:
        pred = "exception:%s@%s" % (type(exc).__name__, frame)
        return Failure(sub, case, pred, "%s: %s" % (type(exc).__name__, exc), tb_text, "exception")
    raise HarnessError("harness error in sub-check %s: %s\n%s" % (sub, exc, tb_text))


# --------------------------------------------------------------------------------------
# known findings
# --------------------------------------------------------------------------------------
def load_known(prop_id):
    path = os.path.join(HERE, "known_findings.json")
    if not os.path.exists(path):
        return []
    with open(path) as f:
        allk = json.load(f)
    return [k for k in allk.get("findings", []) if k["property"] == prop_id and k["status"] == "known"]


def match_known(mod, known, failure):
    for k in known:
        fn = getattr(mod, k["matcher"], None)
        if fn is None:
            raise HarnessError("known finding %s names unknown matcher %s" % (k["id"], k["matcher"]))
        try:
            if fn(failure.case, failure):
                return k["id"]
        except Exception as e:  # a matcher must never crash the run
            raise HarnessError("matcher %s crashed: %r" % (k["matcher"], e))
    return None


# --------------------------------------------------------------------------------------
# one (sub-check, shard) task — runs in a worker process
# --------------------------------------------------------------------------------------
def _load_module(prop_id):
    _setup_path()
    import flowdyn
    fd = os.path.abspath(flowdyn.__file__)
    if not fd.startswith(REPO + os.sep):
        raise HarnessError("flowdyn imported from %s, not from %s" % (fd, REPO))
    return importlib.import_module("vf.props.%s" % prop_id.lower())


def run_task(args):
    prop_id, sub_name, tier, seed, shard, shrink_budget = args
    t0 = time.time()
    out = dict(sub=sub_name, shard=shard, evaluations=0, skipped=collections.Counter(),
               nontrivial_hashes=set(), all_hashes=0, labels=collections.Counter(), samples=[],
               failures=[], known=collections.Counter(), suppressed=collections.Counter(),
               harness_error=None, exhaustive=False, wall=0.0)
    try:
        mod = _load_module(prop_id)
        sub = [s for s in mod.SUBCHECKS if s.name == sub_name][0]
        known = load_known(prop_id)
        _run_sub(mod, sub, tier, seed, shard, shrink_budget, known, out)
    except HarnessError as e:
        out["harness_error"] = _short(str(e))
    except Exception as e:  # anything else escaping is a harness error
        out["harness_error"] = _short("".join(traceback.format_exception(type(e), e, e.__traceback__)))
    out["wall"] = time.time() - t0
    out["margins"] = dict(_MARGINS)
    out["nontrivial_hashes"] = sorted(out["nontrivial_hashes"])
    out["failures"] = [f.to_json() for f in out["failures"]]
    return out


def _execute(mod, sub, case, known, out, suppressed, seen):
    """run the predicate on one case, update the statistics, return a Failure or None"""
    h = case_hash(case)
    first = h not in seen
    seen.add(h)
    out["evaluations"] += 1
    try:
        with warnings.catch_warnings():
            warnings.simplefilter("ignore")
            with np.errstate(all="ignore"), contextlib.redirect_stdout(io.StringIO()):   # flowdyn / aerokit print diagnostics
                obs = sub.check(case) or {}
    except Skip as s:
        out["skipped"][s.reason] += 1
        return None
    except Exception as exc:
        fail = classify_exception(sub.name, case, exc)
        kid = match_known(mod, known, fail)
        if kid is not None:
            out["known"][kid] += 1
            return None
        if fail.bucket in suppressed:
            out["suppressed"][fail.bucket] += 1
            return None
        return fail
    if first:
        out["all_hashes"] += 1
        if obs.get("nontrivial", True):
            out["nontrivial_hashes"].add(h)
        for lab in obs.get("labels", []):
            out["labels"][lab] += 1
        if len(out["samples"]) < 3 and obs.get("nontrivial", True):
            out["samples"].append(case)
    return None


def _run_sub(mod, sub, tier, seed, shard, shrink_budget, known, out):
    seen = set()
    suppressed = set()
    if sub.enumerate is not None:
        out["exhaustive"] = True
        for i, case in enumerate(sub.enumerate(tier)):
            nshards = sub.shards.get(tier, 1)
            if i % nshards != shard:
                continue
            fail = _execute(mod, sub, case, known, out, suppressed, seen)
            if fail is not None:
                if fail.bucket not in suppressed:
                    out["failures"].append(fail)
                    suppressed.add(fail.bucket)
        return

    import hypothesis
    from hypothesis import HealthCheck, Phase, given, settings

    nex = sub.examples.get(tier, 100)
    strat = sub.strategy(tier)
    for attempt in range(4):
        state = dict(best=None, best_key=None, t_first=None)

        def body(case):
            if state["t_first"] is not None and time.time() - state["t_first"] > shrink_budget:
                # shrink budget exhausted: only the best-so-far example still fails
                if canonical(case) == state["best_key"]:
                    raise state["best_exc"]
                return
            fail = _execute(mod, sub, case, known, out, suppressed, seen)
            if fail is not None:
                if state["t_first"] is None:
                    state["t_first"] = time.time()
                state["best"] = fail
                state["best_key"] = canonical(case)
                state["best_exc"] = _Found(fail)
                raise state["best_exc"]

        test = given(strat)(body)
        test = hypothesis.seed(seed * 1000003 + shard * 7919 + attempt * 104729)(test)
        test = settings(max_examples=nex, database=None, deadline=None, derandomize=False,
                        report_multiple_bugs=False, print_blob=False,
                        suppress_health_check=[HealthCheck.too_slow, HealthCheck.data_too_large,
                                               HealthCheck.large_base_example],
                        phases=[Phase.explicit, Phase.generate, Phase.shrink])(test)   # Phase.target is NOT used: see target() above
        _IN_HYPOTHESIS[0] = True
        try:
            test()
        except _Found:
            pass
        except HarnessError:
            raise
        except hypothesis.errors.FailedHealthCheck as e:
            raise HarnessError("hypothesis health check failed in %s: %s" % (sub.name, e))
        except hypothesis.errors.Flaky as e:
            if state["best"] is None:
                raise HarnessError("flaky check %s: %s" % (sub.name, e))
        except hypothesis.errors.Unsatisfiable as e:
            raise HarnessError("unsatisfiable strategy in %s: %s" % (sub.name, e))
        finally:
            _IN_HYPOTHESIS[0] = False
        if state["best"] is None:
            return
        out["failures"].append(state["best"])
        suppressed.add(state["best"].bucket)


def _short(text, n=1800):
    text = str(text)
    return text if len(text) <= n else text[:n // 2] + "\n   [...]\n" + text[-n // 2:]


class _Found(Exception):
    def __init__(self, failure):
        Exception.__init__(self, failure.message)
        self.failure = failure


# --------------------------------------------------------------------------------------
# regress / replay
# --------------------------------------------------------------------------------------
def run_single(mod, sub_name, case, known):
    subs = [s for s in mod.SUBCHECKS if s.name == sub_name]
    if not subs:
        raise HarnessError("unknown sub-check %r" % sub_name)
    out = dict(evaluations=0, skipped=collections.Counter(), nontrivial_hashes=set(), all_hashes=0,
               labels=collections.Counter(), samples=[], known=collections.Counter(),
               suppressed=collections.Counter())
    return _execute(mod, subs[0], case, known, out, set(), set()), out


# --------------------------------------------------------------------------------------
# main
# --------------------------------------------------------------------------------------
def main(argv=None):
    ap = argparse.ArgumentParser()
    ap.add_argument("prop")
    ap.add_argument("--tier", default=os.environ.get("VERIF_TIER", "quick"), choices=["quick", "thorough"])
    ap.add_argument("--replay", default=None)
    ap.add_argument("--only", default=None, help="comma separated sub-check names")
    ap.add_argument("--jobs", type=int, default=int(os.environ.get("VERIF_JOBS", "0")))
    ap.add_argument("--scale", type=float, default=float(os.environ.get("VERIF_SCALE", "1")),
                    help="multiply the number of generated examples (calibration runs)")
    ap.add_argument("--no-evidence", action="store_true")
    a = ap.parse_args(argv)
    prop_id = a.prop.upper()
    try:
        seed = int(os.environ.get("VERIF_SEED", "1"))
    except ValueError:
        seed = 1
    t0 = time.time()
    try:
        mod = _load_module(prop_id)
        known = load_known(prop_id)
    except Exception as e:
        print("HARNESS-ERROR property=%s %s" % (prop_id, "".join(traceback.format_exception(type(e), e, e.__traceback__))))
        return 2

    # ------------------------------------------------------------------ replay mode
    if a.replay:
        try:
            with open(a.replay) as f:
                rec = json.load(f)
            fail, _ = run_single(mod, rec["subcheck"], rec["case"], known=[])
        except HarnessError as e:
            print("HARNESS-ERROR property=%s %s" % (prop_id, e))
            return 2
        if fail is None:
            print("REPLAY-PASS property=%s replay=%s" % (prop_id, a.replay))
            return 0
        print("replay fails: [%s] %s" % (fail.predicate, fail.message))
        print("VIOLATION property=%s replay=%s" % (prop_id, a.replay))
        return 1

    subs = list(mod.SUBCHECKS)
    if a.only:
        names = a.only.split(",")
        subs = [s for s in subs if s.name in names]
    if a.scale != 1:
        for s in subs:
            s.examples = {k: max(1, int(v * a.scale)) for k, v in s.examples.items()}

    failures = []
    known_hits = collections.Counter()
    harness_errors = []

    # ------------------------------------------------------------------ regress tier
    regress_dir = os.path.join(HERE, "regress", prop_id)
    n_regress = 0
    if os.path.isdir(regress_dir) and not a.only:
        for fn in sorted(os.listdir(regress_dir)):
            if not fn.endswith(".json"):
                continue
            with open(os.path.join(regress_dir, fn)) as f:
                rec = json.load(f)
            try:
                fail, o = run_single(mod, rec["subcheck"], rec["case"], known)
            except HarnessError as e:
                harness_errors.append("regress %s: %s" % (fn, e))
                continue
            n_regress += 1
            known_hits.update(o["known"])
            if fail is not None:
                fail.sub = fail.sub
                fj = fail.to_json()
                fj["origin"] = "regress/%s/%s" % (prop_id, fn)
                failures.append(fj)

    # ------------------------------------------------------------------ generated tier
    shrink_budget = 45.0 if a.tier == "quick" else 240.0
    tasks = []
    for s in subs:
        for shard in range(s.shards.get(a.tier, 1)):
            tasks.append((prop_id, s.name, a.tier, seed, shard, shrink_budget))
    jobs = a.jobs or min(len(tasks), os.cpu_count() or 4, 16)
    results = []
    if jobs <= 1 or len(tasks) == 1:
        for t in tasks:
            results.append(run_task(t))
    else:
        ctx = multiprocessing.get_context("spawn")
        limit = float(os.environ.get("VERIF_TIMEOUT", "1500" if a.tier == "quick" else "10800"))
        ex = concurrent.futures.ProcessPoolExecutor(max_workers=jobs, mp_context=ctx)
        futs = [ex.submit(run_task, t) for t in tasks]
        done, pending = concurrent.futures.wait(futs, timeout=limit)
        for fu, t in zip(futs, tasks):
            if fu in done:
                try:
                    results.append(fu.result())
                except Exception as e:      # worker died
                    harness_errors.append("%s[%d]: worker failed: %r" % (t[1], t[4], e))
            else:
                harness_errors.append("%s[%d]: no result within the %.0f s watchdog (inconclusive, not a violation)" % (t[1], t[4], limit))
        if pending:
            for pr in list(getattr(ex, "_processes", {}).values()):
                try:
                    pr.kill()
                except Exception:
                    pass
        ex.shutdown(wait=not pending, cancel_futures=True)

    # ------------------------------------------------------------------ merge
    evaluations = 0
    nontrivial = set()
    labels = collections.Counter()
    skipped = collections.Counter()
    suppressed = collections.Counter()
    samples = []
    per_sub = collections.OrderedDict()
    margins = {}
    exhaustive_subs = []
    seen_buckets = collections.OrderedDict()
    for r in results:
        if r["harness_error"]:
            harness_errors.append("%s[%d]: %s" % (r["sub"], r["shard"], r["harness_error"]))
        evaluations += r["evaluations"]
        for h in r["nontrivial_hashes"]:
            nontrivial.add(r["sub"] + ":" + h)
        labels.update({"%s/%s" % (r["sub"], k): v for k, v in r["labels"].items()})
        skipped.update({"%s/%s" % (r["sub"], k): v for k, v in r["skipped"].items()})
        suppressed.update(r["suppressed"])
        known_hits.update(r["known"])
        for mk, mv in r.get("margins", {}).items():
            margins[mk] = max(mv, margins.get(mk, float("-inf")))
        ps = per_sub.setdefault(r["sub"], dict(evaluations=0, distinct_nontrivial=0, wall_s=0.0, shards=0))
        ps["evaluations"] += r["evaluations"]
        ps["wall_s"] = round(max(ps["wall_s"], r["wall"]), 2)
        ps["shards"] += 1
        if r["exhaustive"] and r["sub"] not in exhaustive_subs:
            exhaustive_subs.append(r["sub"])
        for c in r["samples"]:
            if sum(1 for s in samples if s["subcheck"] == r["sub"]) < 2:
                samples.append(dict(subcheck=r["sub"], case=c))
        for f in r["failures"]:
            b = f["subcheck"] + "|" + f["predicate"]
            if b not in seen_buckets or len(canonical(f["case"])) < len(canonical(seen_buckets[b]["case"])):
                seen_buckets[b] = f   # keep the smallest reproducer of each root-cause bucket
    failures.extend(seen_buckets.values())
    for k in nontrivial:
        per_sub[k.split(":")[0]]["distinct_nontrivial"] += 1

    # ------------------------------------------------------------------ report
    rc = 0
    for k in known:
        print("KNOWN-FINDING: property=%s %s [%s; matched %d generated case(s) in this run]"
              % (prop_id, k["what"], k["id"], known_hits.get(k["id"], 0)))
    rep_dir = os.path.join(os.environ.get("VERIF_REPLAY_DIR", os.path.join(HERE, "replays")), prop_id)
    if os.path.isdir(rep_dir) and not a.only:
        for fn in os.listdir(rep_dir):     # replays of earlier runs are stale
            if fn.endswith(".json"):
                os.remove(os.path.join(rep_dir, fn))
    vio_paths = []
    for f in failures:
        os.makedirs(rep_dir, exist_ok=True)
        name = "%s-%s.json" % (f["subcheck"], hashlib.sha1((f["predicate"] + canonical(f["case"])).encode()).hexdigest()[:10])
        path = os.path.join(rep_dir, name)
        rec = dict(property=prop_id, subcheck=f["subcheck"], predicate=f["predicate"], message=f["message"],
                   case=f["case"], seed=seed, tier=a.tier, origin=f.get("origin", "generated"),
                   traceback=f.get("traceback", ""))
        with open(path, "w") as fh:
            json.dump(rec, fh, indent=1, default=_json_default)
        print("  failing sub-check %s [%s]: %s" % (f["subcheck"], f["predicate"], f["message"][:600]))
        print("VIOLATION property=%s replay=%s" % (prop_id, os.path.relpath(path, HERE)))
        vio_paths.append(os.path.relpath(path, HERE))
        rc = 1
    if harness_errors:
        for h in harness_errors:
            print("HARNESS-ERROR property=%s %s" % (prop_id, h))
        if rc == 0:
            rc = 2

    # classes of cases the property module declares indispensable: an empty class means the generator must be fixed (never a violation)
    required = [l for l in getattr(mod, "REQUIRED_LABELS", []) if not a.only or l.split("/")[0] in [s_.name for s_ in subs]]
    missing = [l for l in required if labels.get(l, 0) == 0]
    if missing:
        print("COVERAGE-GAP property=%s no generated case in the required classes: %s" % (prop_id, ", ".join(missing)))
        if a.tier == "thorough" and rc == 0:
            harness_errors.append("required classes not reached: %s" % ", ".join(missing))
            rc = 2
    wall = time.time() - t0
    rule = getattr(mod, "RULE", "")
    evidence = dict(
        property_id=prop_id, tier=a.tier, seed=seed, level="exploration",
        coverage=dict(
            evaluations=int(evaluations + n_regress),
            distinct_nontrivial=int(len(nontrivial)),
            rule=rule,
            samples=samples[:12],
            exhaustive=False,
            exhaustive_subchecks=exhaustive_subs,
            per_subcheck=per_sub,
            labels=dict(sorted(labels.items())),
            skipped_inadmissible=dict(skipped),
            required_classes=required,
            required_classes_missing=missing,
            worst_observed_margins=margins,
            regress_replayed=n_regress,
            excluded_known_findings=dict(known_hits),
            excluded_after_first_failure=dict(suppressed),
            generator="hypothesis %s, seed=VERIF_SEED*1000003+shard*7919" % _hyp_version(),
            code_under_test=REPO,
        ),
        assumptions=list(getattr(mod, "ASSUMPTIONS", [])),
        wall_s=round(wall, 2),
        violations=len(failures),
        violation_replays=vio_paths,
        harness_errors=len(harness_errors),
    )
    if not a.no_evidence and not a.only:
        os.makedirs(os.path.join(HERE, "evidence"), exist_ok=True)
        with open(os.path.join(HERE, "evidence", "%s.json" % prop_id), "w") as fh:
            json.dump(evidence, fh, indent=1, default=_json_default)
    print("%s property=%s tier=%s seed=%d evaluations=%d distinct_nontrivial=%d violations=%d known=%d skipped=%d wall=%.1fs"
          % ("OK" if rc == 0 else ("FAIL" if rc == 1 else "ERROR"), prop_id, a.tier, seed, evidence["coverage"]["evaluations"],
             len(nontrivial), len(failures), sum(known_hits.values()), sum(skipped.values()), wall))
    if a.only or os.environ.get("VERIF_VERBOSE"):
        for k, v in per_sub.items():
            print("   %-28s %s" % (k, v))
        for k, v in sorted(skipped.items()):
            print("   skipped %-40s %d" % (k, v))
        for k, v in sorted(margins.items()):
            print("   margin  %-40s %.6g" % (k, v))
    return rc


def _hyp_version():
    try:
        import hypothesis
        return hypothesis.__version__
    except Exception:
        return "?"


if __name__ == "__main__":
    sys.exit(main())
