"""C02 - numerical fluxes are consistent, mirror-symmetric and upwind.

Direct calls of model.numflux(name, pL, pR[, dir]) for every flux name registered at run time, on arrays of
left/right primitive states.  Oracle: physical fluxes and Roe averages of vf/oracles.py.
"""
import math

import numpy as np
from hypothesis import strategies as st

from vf import cases, gen, oracles
from vf.runner import SubCheck, require, target

RULE = ("cases = model (convection +/-a, burgers, shallowwater g, euler1d gamma, euler2d gamma + face direction) x registered flux name x "
        "1..32 left/right primitive state pairs: rho,p,h log-uniform over 12 decades, L/R ratios up to 1e6, Mach/Froude in [-3,3], plus pools of "
        "equal states, zero velocity, exactly sonic, exactly antisymmetric and same-direction supercritical pairs. non-trivial = at least one "
        "pair with L != R; distinct = distinct canonical JSON")
ASSUMPTIONS = ["tolerance 1e-12 x natural flux scale rho_max*(|u|+c)_max^k (k=1,2,3 for mass, momentum, energy); upwind clause judged relative to the scale of the upwind state",
               "supercritical predicate evaluated by the oracle with a 1e-6 relative margin on u-c of both states and of their Roe average"]

UPWIND = {"convection": [None], "burgers": [None], "shallowwater": ["hll"], "euler1d": ["hlle", "hllc"], "euler2d": ["hlle"]}


# ---------------------------------------------------------------- generators
def _mach():
    return st.one_of(gen.f(-3, 3), st.sampled_from([0.0, 1.0, -1.0, 0.5, -0.5, 2.0, -2.0]))


def _pair_gas(nvel):
    """[lnrhoL, lnpL, machL(s), lnratio_rho, lnratio_p, machR(s), kind]"""
    ln12 = gen.f(-6 * math.log(10), 6 * math.log(10))
    ln6 = st.one_of(gen.f(-6 * math.log(10), 6 * math.log(10)), gen.f(-1, 1), st.just(0.0))
    machs = st.lists(_mach(), min_size=nvel, max_size=nvel)
    kind = st.sampled_from(["general", "general", "general", "equal", "rest", "sonic", "mirror", "super+", "super-", "super+", "super-", "near", "near"])
    # supercritical pairs: Mach/Froude from just above 1 to hypersonic (log-uniform 1.05..100): with large density AND pressure ratios the Roe average
    # then lies far from both states, which is where a wrong averaging weight changes the sign of a wave-speed bound
    sup = st.one_of(gen.f(1.05, 3.0), st.builds(lambda e: float(1.05 * 10.0 ** e), gen.f(0.0, 2.0)))
    return st.tuples(ln12, ln12, machs, ln6, ln6, machs, kind, sup, sup).map(list)


def _expand_gas(p, wavespeed):
    """-> (rhoL, VL(list), pL, rhoR, VR(list), pR);   wavespeed(rho,p) gives c"""
    lr, lp, mL, rr, rp, mR, kind, s1, s2 = p
    rhoL, pL = math.exp(lr), math.exp(lp)
    rhoR, pR = rhoL * math.exp(rr), pL * math.exp(rp)
    mL, mR = list(mL), list(mR)
    if kind == "equal":
        rhoR, pR, mR = rhoL, pL, mL
    elif kind == "rest":
        mL = [0.0] * len(mL)
        mR = [0.0] * len(mR)
    elif kind == "sonic":
        mL[0] = math.copysign(1.0, mL[0] if mL[0] != 0 else 1.0)
    elif kind == "mirror":
        rhoR, pR = rhoL, pL
        mR = [-mL[0]] + mL[1:]
    elif kind == "near":
        # nearly but not exactly equal states (relative differences 1e-9 .. 1e-5): shortcuts for "uniform flow" must not switch the flux formula
        e1, e2 = (s1 - 1.04) * 1e-7, (s2 - 1.04) * 1e-7
        rhoR, pR = rhoL * (1.0 + e1), pL * (1.0 - e2)
        mR = [m * (1.0 + e2) + (e1 if m == 0 else 0.0) for m in mL]
    elif kind == "super+":
        mL[0], mR[0] = s1, s2
    elif kind == "super-":
        mL[0], mR[0] = -s1, -s2
    cL, cR = wavespeed(rhoL, pL), wavespeed(rhoR, pR)
    return rhoL, [m * cL for m in mL], pL, rhoR, [m * cR for m in mR], pR


def strat(tier):
    nmax = 16 if tier == "quick" else 32
    scal = st.one_of(gen.f(-5, 5), st.sampled_from([0.0, 1.0, -1.0, 2.0, -2.0, 0.5]))
    spair = st.one_of(st.tuples(scal, scal).map(list), scal.map(lambda u: [u, u]), scal.map(lambda u: [u, -u]))
    conv = st.builds(lambda m, ps: dict(model=m, flux=None, pairs=ps), gen.model_convection(), st.lists(spair, min_size=1, max_size=nmax))
    burg = st.builds(lambda ps: dict(model=dict(name="burgers"), flux=None, pairs=ps), st.lists(spair, min_size=1, max_size=nmax))
    sw = st.builds(lambda m, fl, ps: dict(model=m, flux=fl, pairs=ps), gen.model_shallowwater(),
                   st.sampled_from(cases.flux_names(dict(name="shallowwater"))), st.lists(_pair_gas(1), min_size=1, max_size=nmax))
    e1 = st.builds(lambda m, fl, ps: dict(model=m, flux=fl, pairs=ps), gen.model_euler1d(),
                   st.sampled_from(cases.flux_names(dict(name="euler1d"))), st.lists(_pair_gas(1), min_size=1, max_size=nmax))
    e2 = st.builds(lambda m, fl, ps, face: dict(model=m, flux=fl, pairs=ps, face=face), gen.model_euler2d(),
                   st.sampled_from(cases.flux_names(dict(name="euler2d"))), st.lists(_pair_gas(2), min_size=1, max_size=nmax), st.sampled_from(["x", "y"]))
    return st.one_of(conv, burg, sw, e1, e1, e2, e2)


# ---------------------------------------------------------------- predicate
def _cmp(F, ref, scale, tol, pred, what):
    F = np.asarray(F, dtype=float)
    ref = np.asarray(ref, dtype=float)
    require(F.shape == ref.shape, pred + "-shape", "%s: flux shape %r, expected %r" % (what, F.shape, ref.shape))
    require(np.all(np.isfinite(F)), pred + "-finite", "%s: non-finite numerical flux" % what)
    err = np.abs(F - ref) / scale
    k = int(np.argmax(err))
    require(float(err.flat[k]) <= tol, pred, "%s: |F-ref|/scale = %.3g at pair %d (F=%r ref=%r)" % (what, float(err.flat[k]), k % ref.shape[-1], float(F.flat[k]), float(ref.flat[k])))
    return float(err.flat[k])


def check(case):
    md = case["model"]
    name = md["name"]
    flux = case["flux"]
    model = cases.build_model(md)
    labels = ["model:%s/%s" % (name, flux)]
    tol = 1e-12
    worst = 0.0
    if name in ("convection", "burgers"):
        L = np.array([p[0] for p in case["pairs"]], dtype=float)
        R = np.array([p[1] for p in case["pairs"]], dtype=float)
        a = md.get("a", 1.0)
        phys = (lambda u: oracles.flux_convection(a, u)[0]) if name == "convection" else (lambda u: oracles.flux_burgers(u)[0])
        num = lambda l, r, mdl=model: np.asarray(mdl.numflux(flux, [l.copy()], [r.copy()])[0], dtype=float)
        sc = (abs(a) * np.maximum(np.abs(L), np.abs(R)) if name == "convection" else np.maximum(L * L, R * R)) + 1e-300
        worst = max(worst, _cmp(num(L, L), phys(L), (abs(a) * np.abs(L) if name == "convection" else L * L) + 1e-300, tol, "consistency", "F(W,W) vs f(W)"))
        F = num(L, R)
        # a flux is a function of its two states only: the same call repeated after the model served OTHER pairs (same number of faces: permuted, at rest,
        # exactly antisymmetric) returns the same bits
        num(R[::-1].copy(), L[::-1].copy())
        num(np.zeros_like(L), np.zeros_like(R))
        num(np.abs(L) + 1.0, np.abs(L) + 1.0)
        Fh = num(L, R)
        require(np.array_equal(Fh, F, equal_nan=True), "numflux-history", "%s: the flux of the same pairs differs after the model evaluated other pairs (max difference %.3g)"
                % (name, float(np.nanmax(np.abs(Fh - F)))))
        if name == "convection":
            mm = cases.build_model(dict(md, a=-a))
            Fm = np.asarray(mm.numflux(flux, [-R * 0 + R], [L.copy()])[0], dtype=float)   # scalar is even: states keep their value, speed negated
            worst = max(worst, _cmp(Fm, -F, sc, tol, "mirror", "convection mirror"))
            up = np.where(a > 0, a * L, a * R)
            worst = max(worst, _cmp(F, up, sc, tol, "upwind", "convection upwind flux"))
            labels.append("a>0" if a > 0 else "a<0")
        else:
            Fm = num(-R, -L)
            worst = max(worst, _cmp(Fm, F, sc, tol, "mirror", "burgers mirror"))
            pos = (L > 0) & (R > 0)
            neg = (L < 0) & (R < 0)
            if np.any(pos):
                worst = max(worst, _cmp(F[pos], 0.5 * L[pos] ** 2, L[pos] ** 2, tol, "upwind", "burgers right-going"))
                labels.append("upwind+")
            if np.any(neg):
                worst = max(worst, _cmp(F[neg], 0.5 * R[neg] ** 2, R[neg] ** 2, tol, "upwind", "burgers left-going"))
                labels.append("upwind-")
        nontrivial = bool(np.any(L != R))
        if np.any(L == -R):
            labels.append("antisymmetric")
        return dict(nontrivial=nontrivial, labels=labels)

    if name == "shallowwater":
        g = md.get("g", 9.81)
        ex = [_expand_gas(p, lambda h, _p: math.sqrt(g * h)) for p in case["pairs"]]
        hL = np.array([e[0] for e in ex]); uL = np.array([e[1][0] for e in ex])
        hR = np.array([e[3] for e in ex]); uR = np.array([e[4][0] for e in ex])
        cL, cR = np.sqrt(g * hL), np.sqrt(g * hR)
        num = lambda a, b, c, d: [np.asarray(x, dtype=float) for x in model.numflux(flux, [a.copy(), b.copy()], [c.copy(), d.copy()])]
        sL_, sR_ = np.abs(uL) + cL, np.abs(uR) + cR
        smax = np.maximum(sL_, sR_)
        hmax = np.maximum(hL, hR)
        scales = [hmax * smax, hmax * smax ** 2]
        scL = [hL * sL_, hL * sL_ ** 2]
        scR = [hR * sR_, hR * sR_ ** 2]
        Fc = num(hL, uL, hL, uL)
        ref = oracles.flux_sw(g, hL, uL)
        for k in range(2):
            worst = max(worst, _cmp(Fc[k], ref[k], scL[k], tol, "consistency", "shallowwater/%s F(W,W) eq %d" % (flux, k)))
        F = num(hL, uL, hR, uR)
        # a flux is a function of the two states of ONE face: every pair evaluated alone gives the value it has inside the batch
        for i in sorted(set([0, len(hL) // 2, len(hL) - 1])):
            Fi = num(hL[i:i + 1], uL[i:i + 1], hR[i:i + 1], uR[i:i + 1])
            for k in range(2):
                worst = max(worst, _cmp(Fi[k], F[k][i:i + 1], scales[k][i:i + 1], tol, "elementwise", "shallowwater/%s eq %d: pair %d alone vs inside an array of %d pairs" % (flux, k, i, len(hL))))
        Fm = num(hR, -uR, hL, -uL)
        worst = max(worst, _cmp(Fm[0], -F[0], scales[0], tol, "mirror", "shallowwater/%s depth flux" % flux))
        worst = max(worst, _cmp(Fm[1], F[1], scales[1], tol, "mirror", "shallowwater/%s momentum flux" % flux))
        if flux in UPWIND[name]:
            sq = np.sqrt(hL), np.sqrt(hR)
            uroe = (sq[0] * uL + sq[1] * uR) / (sq[0] + sq[1])
            croe = np.sqrt(0.5 * g * (hL + hR))
            mrg = 1e-6
            pos = (uL - cL > mrg * cL) & (uR - cR > mrg * cR) & (uroe - croe > mrg * croe)
            neg = (uL + cL < -mrg * cL) & (uR + cR < -mrg * cR) & (uroe + croe < -mrg * croe)
            for k in range(2):
                if np.any(pos):
                    worst = max(worst, _cmp(F[k][pos], ref[k][pos], scL[k][pos], tol, "upwind", "shallowwater/%s supercritical -> f(left) eq %d" % (flux, k)))
                if np.any(neg):
                    refR = oracles.flux_sw(g, hR, uR)
                    worst = max(worst, _cmp(F[k][neg], refR[k][neg], scR[k][neg], tol, "upwind", "shallowwater/%s supercritical -> f(right) eq %d" % (flux, k)))
            if np.any(pos): labels.append("upwind+")
            if np.any(neg): labels.append("upwind-")
        nontrivial = bool(np.any((hL != hR) | (uL != uR)))
        labels += _pair_labels(case)
        target(worst, "flux-error")
        return dict(nontrivial=nontrivial, labels=labels)

    gam = md.get("gamma", 1.4)
    ex = [_expand_gas(p, lambda r, p_: math.sqrt(gam * p_ / r)) for p in case["pairs"]]
    rL = np.array([e[0] for e in ex]); pL = np.array([e[2] for e in ex])
    rR = np.array([e[3] for e in ex]); pR = np.array([e[5] for e in ex])
    cL, cR = np.sqrt(gam * pL / rL), np.sqrt(gam * pR / rR)
    if name == "euler1d":
        uL = np.array([e[1][0] for e in ex]); uR = np.array([e[4][0] for e in ex])
        num = lambda a, b, c, d, e, f_: [np.asarray(x, dtype=float) for x in model.numflux(flux, [a.copy(), b.copy(), c.copy()], [d.copy(), e.copy(), f_.copy()])]
        aL, aR = np.abs(uL) + cL, np.abs(uR) + cR
        amax, rmax = np.maximum(aL, aR), np.maximum(rL, rR)
        # energy scale uses pressure as well (rho c^2 ~ p): rho*a^3 covers p*a
        scales = [rmax * amax, rmax * amax ** 2, rmax * amax ** 3]
        scL = [rL * aL, rL * aL ** 2, rL * aL ** 3]
        scR = [rR * aR, rR * aR ** 2, rR * aR ** 3]
        # with very different sound speeds the larger pressure may sit on the low-density side
        pmax = np.maximum(pL, pR)
        scales = [np.maximum(scales[0], 0), np.maximum(scales[1], pmax), np.maximum(scales[2], pmax * amax)]
        refL = oracles.flux_euler1d(gam, rL, uL, pL)
        refR = oracles.flux_euler1d(gam, rR, uR, pR)
        Fc = num(rL, uL, pL, rL, uL, pL)
        for k in range(3):
            worst = max(worst, _cmp(Fc[k], refL[k], scL[k], tol, "consistency", "euler1d/%s F(W,W) eq %d" % (flux, k)))
        F = num(rL, uL, pL, rR, uR, pR)
        # purity: the arguments are left untouched and a second call gives the same bits
        argL, argR = [rL.copy(), uL.copy(), pL.copy()], [rR.copy(), uR.copy(), pR.copy()]
        F2 = [np.asarray(x, dtype=float) for x in model.numflux(flux, argL, argR)]
        require(all(np.array_equal(a, b) for a, b in zip(argL + argR, [rL, uL, pL, rR, uR, pR])), "numflux-mutates-arguments", "euler1d/%s modified its argument arrays" % flux)
        require(all(np.array_equal(a, b) for a, b in zip(F, F2)), "numflux-repeatable", "euler1d/%s gives different results on identical calls" % flux)
        for i in sorted(set([0, len(rL) // 2, len(rL) - 1])):
            Fi = num(rL[i:i + 1], uL[i:i + 1], pL[i:i + 1], rR[i:i + 1], uR[i:i + 1], pR[i:i + 1])
            for k in range(3):
                worst = max(worst, _cmp(Fi[k], F[k][i:i + 1], scales[k][i:i + 1], tol, "elementwise", "euler1d/%s eq %d: pair %d alone vs inside an array of %d pairs" % (flux, k, i, len(rL))))
        Fm = num(rR, -uR, pR, rL, -uL, pL)
        for k, sgn in ((0, -1.0), (1, 1.0), (2, -1.0)):
            worst = max(worst, _cmp(Fm[k], sgn * F[k], scales[k], tol, "mirror", "euler1d/%s eq %d" % (flux, k)))
        if flux in UPWIND[name]:
            HL = gam / (gam - 1) * pL / rL + 0.5 * uL ** 2
            HR = gam / (gam - 1) * pR / rR + 0.5 * uR ** 2
            w = np.sqrt(rR / rL)
            uroe = (uL + w * uR) / (1 + w)
            hroe = (HL + w * HR) / (1 + w)
            croe = np.sqrt((gam - 1) * (hroe - 0.5 * uroe ** 2))
            mrg = 1e-6
            pos = (uL - cL > mrg * cL) & (uR - cR > mrg * cR) & (uroe - croe > mrg * croe)
            neg = (uL + cL < -mrg * cL) & (uR + cR < -mrg * cR) & (uroe + croe < -mrg * croe)
            for k in range(3):
                if np.any(pos):
                    worst = max(worst, _cmp(F[k][pos], refL[k][pos], scL[k][pos], tol, "upwind", "euler1d/%s supersonic -> f(left) eq %d" % (flux, k)))
                if np.any(neg):
                    worst = max(worst, _cmp(F[k][neg], refR[k][neg], scR[k][neg], tol, "upwind", "euler1d/%s supersonic -> f(right) eq %d" % (flux, k)))
            if np.any(pos): labels.append("upwind+")
            if np.any(neg): labels.append("upwind-")
        nontrivial = bool(np.any((rL != rR) | (uL != uR) | (pL != pR)))
        labels += _pair_labels(case)
        target(worst, "flux-error")
        return dict(nontrivial=nontrivial, labels=labels)

    # ------------------------------------------------------------ euler2d
    n = len(ex)
    face = case["face"]
    ax = 0 if face == "x" else 1
    VL = np.array([[e[1][0] for e in ex], [e[1][1] for e in ex]])
    VR = np.array([[e[4][0] for e in ex], [e[4][1] for e in ex]])
    if ax == 1:      # generated "first Mach" is the face-normal one
        VL, VR = VL[::-1].copy(), VR[::-1].copy()
    nrm = np.zeros((2, n)); nrm[ax] = 1.0
    dirc = np.zeros((2, n), dtype=np.int8); dirc[ax] = 1

    def num(a, b, c, d, e, f_, dr=dirc):
        out = model.numflux(flux, [a.copy(), b.copy(), c.copy()], [d.copy(), e.copy(), f_.copy()], dr)
        return [np.asarray(x, dtype=float) for x in out]
    aL = np.sqrt(VL[0] ** 2 + VL[1] ** 2) + cL
    aR = np.sqrt(VR[0] ** 2 + VR[1] ** 2) + cR
    amax, rmax, pmax = np.maximum(aL, aR), np.maximum(rL, rR), np.maximum(pL, pR)
    scales = [rmax * amax, np.maximum(rmax * amax ** 2, pmax), np.maximum(rmax * amax ** 3, pmax * amax)]
    scL = [rL * aL, rL * aL ** 2, rL * aL ** 3]
    scR = [rR * aR, rR * aR ** 2, rR * aR ** 3]
    refL = oracles.flux_euler2d(gam, rL, VL, pL, nrm)
    refR = oracles.flux_euler2d(gam, rR, VR, pR, nrm)
    Fc = num(rL, VL, pL, rL, VL, pL)
    for k in range(3):
        worst = max(worst, _cmp(Fc[k], refL[k], scL[k], tol, "consistency", "euler2d/%s face %s F(W,W) eq %d" % (flux, face, k)))
    F = num(rL, VL, pL, rR, VR, pR)
    # mirror across the face: swap, negate the normal velocity component
    mL, mR = VR.copy(), VL.copy()
    mL[ax] *= -1; mR[ax] *= -1
    Fm = num(rR, mL, pR, rL, mR, pL)
    sgn_mom = np.ones((2, 1)); sgn_mom[1 - ax] = -1.0     # normal momentum odd (unchanged), tangential even (sign change)
    worst = max(worst, _cmp(Fm[0], -F[0], scales[0], tol, "mirror", "euler2d/%s face %s mass" % (flux, face)))
    worst = max(worst, _cmp(Fm[1], sgn_mom * F[1], scales[1], tol, "mirror", "euler2d/%s face %s momentum" % (flux, face)))
    worst = max(worst, _cmp(Fm[2], -F[2], scales[2], tol, "mirror", "euler2d/%s face %s energy" % (flux, face)))
    # x <-> y: flux through the other face family of the component-swapped states
    odir = np.zeros((2, n), dtype=np.int8); odir[1 - ax] = 1
    Fs = num(rL, VL[::-1].copy(), pL, rR, VR[::-1].copy(), pR, odir)
    worst = max(worst, _cmp(Fs[0], F[0], scales[0], tol, "xy-swap", "euler2d/%s mass" % flux))
    worst = max(worst, _cmp(Fs[1], F[1][::-1], scales[1], tol, "xy-swap", "euler2d/%s momentum" % flux))
    worst = max(worst, _cmp(Fs[2], F[2], scales[2], tol, "xy-swap", "euler2d/%s energy" % flux))
    if flux in UPWIND[name]:
        HL = gam / (gam - 1) * pL / rL + 0.5 * (VL[0] ** 2 + VL[1] ** 2)
        HR = gam / (gam - 1) * pR / rR + 0.5 * (VR[0] ** 2 + VR[1] ** 2)
        w = np.sqrt(rR / rL)
        Vroe = (VL + w * VR) / (1 + w)
        hroe = (HL + w * HR) / (1 + w)
        croe = np.sqrt((gam - 1) * (hroe - 0.5 * (Vroe[0] ** 2 + Vroe[1] ** 2)))
        unL, unR, unroe = VL[ax], VR[ax], Vroe[ax]
        mrg = 1e-6
        pos = (unL - cL > mrg * cL) & (unR - cR > mrg * cR) & (unroe - croe > mrg * croe)
        neg = (unL + cL < -mrg * cL) & (unR + cR < -mrg * cR) & (unroe + croe < -mrg * croe)
        for k in range(3):
            if np.any(pos):
                worst = max(worst, _cmp(F[k][..., pos], refL[k][..., pos], scL[k][pos], tol, "upwind", "euler2d/%s face %s supersonic -> f(left) eq %d" % (flux, face, k)))
            if np.any(neg):
                worst = max(worst, _cmp(F[k][..., neg], refR[k][..., neg], scR[k][neg], tol, "upwind", "euler2d/%s face %s supersonic -> f(right) eq %d" % (flux, face, k)))
        if np.any(pos): labels.append("upwind+")
        if np.any(neg): labels.append("upwind-")
    nontrivial = bool(np.any((rL != rR) | (pL != pR) | np.any(VL != VR, axis=0)))
    labels += _pair_labels(case) + ["face:" + face]
    target(worst, "flux-error")
    return dict(nontrivial=nontrivial, labels=labels)


def _pair_labels(case):
    out = set()
    for p in case["pairs"]:
        out.add("kind:" + p[6])
        if abs(p[3]) > math.log(1e3) or abs(p[4]) > math.log(1e3):
            out.add("ratio>1e3")
    return sorted(out)


REQUIRED_LABELS = ['flux_relations/kind:near', 'flux_relations/kind:equal', 'flux_relations/kind:rest', 'flux_relations/kind:sonic', 'flux_relations/kind:mirror', 'flux_relations/kind:super+', 'flux_relations/kind:super-', 'flux_relations/ratio>1e3', 'flux_relations/upwind+', 'flux_relations/upwind-', 'flux_relations/face:x', 'flux_relations/face:y', 'flux_relations/antisymmetric']

SUBCHECKS = [
    SubCheck("flux_relations", check, strategy=strat, examples={"quick": 1500, "thorough": 5000}, shards={"quick": 8, "thorough": 16}),
]

META = dict(
    level_text="Generated search over left/right state pairs (12 decades, ratios to 1e6, special pools) for every flux name registered at run time in every "
               "model; consistency, reflection parity, the upwind clause and the 2-D x/y exchange are judged against independently written physical fluxes "
               "and Roe averages. Exploration only: a violation limited to a state pattern outside the pools can be missed.",
    level_note="trusted: numpy; physical fluxes and Roe averages in vf/oracles.py and in this module; tolerance 1e-12 x natural flux scale",
    technique="property-based testing (Hypothesis given): differential against physical fluxes + metamorphic reflection / axis exchange",
)
