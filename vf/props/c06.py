"""C06 - implicit integrators solve the linearised theta / BDF2 system exactly.

Oracle: the operator matrix A of the linear convection discretisation is assembled by the harness from unit vectors, then
(I - theta dt A)^-1 (I + (1-theta) dt A) Q  (Householder QR), the BDF2 recurrence, expm(tA)Q (scipy) for the temporal order and a
central-difference derivative of rhs (independent step) for the Jacobian.
"""
import numpy as np
from hypothesis import strategies as st

from vf import cases, gen, oracles, sim
from vf.runner import Skip, SubCheck, require, target

RULE = ("theta/gear: linear convection(+/-a) x mesh (uniform/refined/morphed/arbitrary faces, 2..20 (thorough 60) cells) x linear reconstruction (extrapol1/2/3, centered, fromm, quick, "
        "extrapolk(k)) x periodic x random field x CFL 10^[-2,2] x 1..4 steps x scalar or per-cell dt; no-growth: uniform periodic meshes, upwind kappa schemes; order: smooth data, "
        "N and 2N steps against expm; jacobian: smooth admissible euler1d / shallowwater / burgers states away from sonic points x every flux x {extrapol1, k-schemes} x {per, dirichlet}. "
        "non-trivial = non-constant field and dt*rho(A) > 1e-3; distinct = distinct canonical JSON")
ASSUMPTIONS = ["relative tolerance 1e-6 on steps (finite-difference Jacobian of a linear operator + LAPACK solve; observed <= 2e-8 at CFL 100 on the repaired tree)",
               "Jacobian compared with a central difference (step 1e-5 x natural scale) to 1e-4 x max|J| (the code's one-sided 1e-6 difference has a truncation error ~1e-6)",
               "temporal order ratios accepted within [0.7,1.4] x 2^p", "gear judged with constant dt (the property states the constant-step BDF2 recurrence)"]

THETA = {"implicit": 1.0, "backwardeuler": 1.0, "cranknicolson": 0.5, "trapezoidal": 0.5}


def _linear_nums():
    return st.one_of(st.sampled_from([dict(name="extrapol1"), dict(name="extrapol2"), dict(name="extrapol3"), dict(name="centered"), dict(name="fromm"), dict(name="quick")]),
                     st.builds(lambda k: dict(name="extrapolk", k=k), gen.f(-1, 1)))


def _field():
    v = st.one_of(gen.f(-2, 2), st.sampled_from([0.0, 1.0, -1.0]))
    return st.one_of(gen.prof_vals(v, 2, 11), gen.prof_steps(v), gen.prof_fourier(gen.f(-1, 1), gen.f(0, 1)), gen.prof_saw(gen.f(-1, 1), gen.f(-2, 2)))


def operator_matrix(disc, model, mesh, n):
    """the space operator of a linear model is affine, R(Q) = A Q + z (z != 0 with a non-zero Dirichlet inflow value): A column by column, z = R(0)"""
    z = np.asarray(disc.rhs(cases.build_field(model, mesh, [np.zeros(n)]))[0], dtype=float)
    A = np.zeros((n, n))
    for j in range(n):
        e = np.zeros(n)
        e[j] = 1.0
        A[:, j] = np.asarray(disc.rhs(cases.build_field(model, mesh, [e]))[0], dtype=float) - z
    return A, z


def _setup(case):
    md = case["model"]
    model = cases.build_model(md)
    mesh = cases.build_mesh(case["mesh"])
    xf = np.asarray(mesh.xf, dtype=float)
    n = len(xf) - 1
    bv = case.get("dirichlet")
    bc = {"type": "per"} if bv is None else {"type": "dirichlet", "prim": [bv]}
    disc = cases.build_disc(model, mesh, case["num"], None, dict(bc), dict(bc))
    q0 = cases.profile(case["field"], cases.norm_coord(xf))
    xc_ = 0.5 * (xf[1:] + xf[:-1])
    seam = float(xc_[0] + mesh.length - xc_[-1]) / float(np.mean(xf[1:] - xf[:-1]))
    if not 0.2 <= seam <= 5.0:
        # flowdyn closes the periodic gradient with the NOMINAL length of the mesh: on a morphed mesh whose image has another extent the seam distance
        # xc[0] + length - xc[-1] can vanish or change sign.  Such meshes are outside what the periodic closure supports; not judged.
        raise Skip("periodic closure degenerate on this mesh (image extent differs from the nominal length: seam distance %.3g cells)" % seam)
    A, z = operator_matrix(disc, model, mesh, n)
    if not (np.all(np.isfinite(A)) and np.all(np.isfinite(z))):
        # flowdyn closes the periodic gradient with the NOMINAL length of the mesh: on a morphed mesh whose image has another extent the seam distance
        # xc[0] + length - xc[-1] can vanish (0/0).  Such meshes are outside what the periodic closure supports; not judged.
        raise Skip("periodic closure undefined on this mesh (image extent differs from the nominal length and the seam distance vanishes)")
    if bv is None:
        require(np.max(np.abs(z)) == 0.0, "operator-affine", "rhs(0) != 0 for periodic linear convection")
    # the operator is affine: R(a x + (1-a) y) = a R(x) + (1-a) R(y), checked on the initial data against A q0 + z
    r0 = np.asarray(disc.rhs(cases.build_field(model, mesh, [q0.copy()]))[0], dtype=float)
    sc0 = abs(md["a"]) / float(np.min(xf[1:] - xf[:-1])) * (float(np.max(np.abs(q0))) + abs(bv or 0.0)) + 1e-300          # natural size of a residual
    require(float(np.max(np.abs(r0 - (A @ q0 + z)))) <= 1e-11 * sc0, "operator-affine", "the space operator of linear convection is not affine in the data")
    if bv is not None and 0.0 < float(np.mean(np.abs(q0))) < 1e-4 * max(abs(bv), float(np.max(np.abs(q0)))):
        # flowdyn's difference step is 1e-6 x mean|q|: data that are tiny (not zero) next to the boundary value push it into the round-off of the operator (see C01)
        raise Skip("data tiny compared with the Dirichlet value: the finite-difference Jacobian step is below the round-off resolution of the operator")
    dx = xf[1:] - xf[:-1]
    return md, model, mesh, disc, n, q0, A, dx, z


def strat_theta(tier):
    nmax = 20 if tier == "quick" else 60
    _ex, im = cases.integrator_names()
    # length unit (micrometres to kilometres): with the convection speed it sets the absolute size of dt; dtfac: the step sizes of successive steps on the
    # SAME solver object differ (theta schemes; gear's BDF2 recurrence is stated for a constant step)
    unit = st.one_of(st.just(1.0), st.just(1.0), gen.logf(-10, 4))
    dtfac = st.one_of(st.just([1.0, 1.0, 1.0, 1.0]), st.lists(st.one_of(gen.logf(-1.5, 1.5), gen.f(0.5, 2.0)), min_size=4, max_size=4))
    # boundaries: periodic (homogeneous problem), or a Dirichlet value on both sides (the inflow one makes the linear problem affine, dQ/dt = A Q + b)
    return st.builds(lambda c, bv: dict(c, dirichlet=bv), st.builds(lambda md, me, num, fld, integ, cfl, ns, loc, u, df: dict(model=md, mesh=cases.scale_mesh(me, u), num=num, field=fld, integ=integ, cfl=cfl, nsteps=ns, local=loc, unit=u, dtfac=df),
                     gen.model_convection(), st.one_of(gen.mesh_any(2, nmax), gen.mesh_any(2, nmax), gen.mesh_any(2, nmax), gen.mesh_morph_moving(2, nmax)), _linear_nums(), _field(), st.sampled_from(im), gen.logf(-2, 2), st.integers(1, 4), st.booleans(), unit, dtfac),
                     st.one_of(st.none(), st.none(), gen.f(-2, 2), st.sampled_from([1.0, 0.0])))


def strat_theta_large(tier):
    """the same statement on a few LARGE systems (500 and 1000 unknowns), uniform and non-uniform meshes"""
    _ex, im = cases.integrator_names()
    mesh = st.builds(lambda n, kind, L: (dict(kind="uni", n=n, length=L, x0=0.0) if kind == 0 else dict(kind="morph", n=n, length=L, x0=0.0, law="sine", param=0.5)),
                     st.sampled_from([500, 1000]), st.integers(0, 1), gen.logf(-1, 1))
    return st.builds(lambda md, me, num, fld, integ, cfl, ns: dict(model=md, mesh=me, num=num, field=fld, integ=integ, cfl=cfl, nsteps=ns, local=False),
                     gen.model_convection(), mesh, _linear_nums(), gen.prof_fourier(gen.f(-1, 1), gen.f(0.1, 1)), st.sampled_from(im), st.one_of(gen.logf(-1, 2), gen.f(4, 40)), st.integers(1, 2))


def strat_theta_fragile(tier):
    """the corner in which defect D19 lived: flow towards decreasing indices, 4-point upwind-biased schemes, theta x CFL of order 2..30, a few hundred cells
    (LU with partial pivoting loses accuracy exponentially in the number of cells there; the statement is about the solution of the system, whatever the solver)"""
    _ex, im = cases.integrator_names()
    num = st.one_of(st.sampled_from([dict(name="extrapol3"), dict(name="quick"), dict(name="fromm")]), st.builds(lambda k: dict(name="extrapolk", k=k), gen.f(0.0, 1.0)))
    return st.builds(lambda a, n, L, nm, fld, integ, cfl, ns: dict(model=dict(name="convection", a=-a), mesh=dict(kind="uni", n=n, length=L, x0=0.0), num=nm, field=fld, integ=integ, cfl=cfl, nsteps=ns, local=False),
                     gen.logf(-1, 1), st.sampled_from([100, 130, 150, 170, 190, 199, 200, 250, 400, 700]), gen.logf(-1, 1), num, gen.prof_fourier(gen.f(-1, 1), gen.f(0.1, 1)), st.sampled_from(im),
                     gen.logf(0.3, 1.6), st.integers(1, 2))


def check_theta(case):
    md, model, mesh, disc, n, q0, A, dx, zvec = _setup(case)
    name = case["integ"]
    a = abs(md["a"])
    local = case["local"] and name != "gear"
    dtfac = case.get("dtfac", [1.0] * 4) if name != "gear" else [1.0] * 4
    solver = cases.build_integrator(name, mesh, disc)
    f = cases.build_field(model, mesh, [q0])
    I = np.eye(n)
    qs = [q0.copy()]
    scale = max(float(np.max(np.abs(q0))), abs(case.get("dirichlet") or 0.0)) + 1e-300
    worst = 0.0
    tref = 0.0
    for k in range(case["nsteps"]):
        cflk = case["cfl"] * dtfac[k]
        dtcell = cflk * dx / a
        dt = dtcell if local else float(np.min(dtcell))
        D = np.diag(dtcell) if local else dt * np.eye(n)
        solver.step(f, dt)
        got = np.asarray(f.data[0], dtype=float)
        require(np.all(np.isfinite(got)), "step-finite", "%s step %d returns non-finite data (cfl=%g)" % (name, k + 1, case["cfl"]))
        qn = qs[-1]
        if name in THETA:
            th = THETA[name]
            ref = oracles.dense_solve(I - th * D @ A, (I + (1 - th) * D @ A) @ qn + D @ zvec)
        elif name == "gear":
            if k == 0:
                ref = oracles.dense_solve(I - 0.5 * D @ A, (I + 0.5 * D @ A) @ qn + D @ zvec)
            else:
                ref = oracles.dense_solve(1.5 * I - D @ A, 2.0 * qn - 0.5 * qs[-2] + D @ zvec)
        else:
            raise Skip("implicit integrator %r is not one of those the property names (no reference scheme)" % name)
        # measured against the size of the data of THIS step (per-cell time steps with a centred scheme can grow by orders of magnitude per step)
        stepscale = max(scale, float(np.max(np.abs(qn))), float(np.max(np.abs(ref))))
        err = float(np.max(np.abs(got - ref))) / stepscale
        # the finite-difference Jacobian of the linear operator is exact to ~1e-9 relative; the step multiplies that error by dt_i*|a|/dx_j, i.e. by the
        # CFL number times the largest ratio of cell sizes when the time step is per cell, and the linear solve by the condition number of the system
        th_ = THETA.get(name, 0.5 if k == 0 else 2.0 / 3.0)
        cond = float(np.linalg.cond(I - th_ * D @ A)) if n <= 100 else 1.0
        tol = 1e-6 + 1e-8 * cflk * (float(np.max(dx) / np.min(dx)) if local else 1.0) + 1e-8 * cond
        require(err <= tol, "linearised-system", "%s step %d (cfl=%g, %s dt, %s, %s mesh, n=%d): result differs from the dense solution of the %s system by %.3g (relative)"
                % (name, k + 1, cflk, "per-cell" if local else "scalar", case["num"]["name"], case["mesh"]["kind"], n,
                   "theta" if name in THETA else ("Crank-Nicolson" if k == 0 else "BDF2"), err))
        worst = max(worst, err / tol)
        # continue the reference trajectory from the reference itself (errors must not accumulate silently)
        qs.append(ref)
        tref += float(np.min(dtcell))
        require(abs(f.time - tref) <= 1e-12 * tref, "step-time", "%s: time after %d steps is %r, expected %r" % (name, k + 1, f.time, tref))
    target(worst, "theta-step-error/tol")
    rho = float(np.max(np.abs(np.linalg.eigvals(A)))) if n <= 40 else float(np.linalg.norm(A, 1))
    nt = bool(np.max(q0) > np.min(q0) and float(np.min(dtcell)) * rho > 1e-3)
    varying = len(set(dtfac[:case["nsteps"]])) > 1
    return dict(nontrivial=nt, labels=["integ:" + name, "num:" + case["num"]["name"], "mesh:" + case["mesh"]["kind"], "dt:" + ("local" if local else "scalar"),
                                       "cfl:" + ("<=1" if case["cfl"] <= 1 else "<=10" if case["cfl"] <= 10 else ">10"), "steps:%d" % case["nsteps"],
                                       "dt-varies-between-steps" if varying else "dt-constant", "dt<1e-8" if float(np.min(dtcell)) < 1e-8 else "dt>=1e-8"])


# ---------------------------------------------------------------- no growth for Re z <= 0
def strat_growth(tier):
    nmax = 20 if tier == "quick" else 60
    return st.builds(lambda md, n, L, num, fld, integ, cfl: dict(model=md, mesh=dict(kind="uni", n=n, length=L, x0=0.0), num=num, field=fld, integ=integ, cfl=cfl),
                     gen.model_convection(), st.integers(2, nmax), gen.logf(-1, 1),
                     st.one_of(st.sampled_from([dict(name="extrapol1"), dict(name="extrapol2"), dict(name="extrapol3"), dict(name="fromm"), dict(name="quick"), dict(name="centered")]),
                               st.builds(lambda k: dict(name="extrapolk", k=k), gen.f(-1, 1))),
                     _field(), st.sampled_from(sorted(THETA)), gen.logf(-2, 2))


def check_growth(case):
    md, model, mesh, disc, n, q0, A, dx, zvec = _setup(case)
    ev = np.linalg.eigvals(A)
    rho = float(np.max(np.abs(ev))) + 1e-300
    if float(np.max(ev.real)) > 1e-10 * rho:
        raise Skip("operator has eigenvalues with positive real part (not an upwind kappa scheme)")
    dt = case["cfl"] * float(np.min(dx)) / abs(md["a"])
    solver = cases.build_integrator(case["integ"], mesh, disc)
    f = cases.build_field(model, mesh, [q0])
    n0 = float(np.linalg.norm(q0))
    for k in range(3):
        solver.step(f, dt)
        n1 = float(np.linalg.norm(f.data[0]))
        require(n1 <= n0 * (1 + 1e-7) + 1e-300, "no-growth", "%s: ||Q|| grows from %r to %r in step %d although Re z <= 0 (cfl=%g, %s, n=%d)" % (case["integ"], n0, n1, k + 1, case["cfl"], case["num"]["name"], n))
        n0 = max(n0, n1) if False else n1
    # amplification factors of the eigenmodes: 1/(1-z) and (1+z/2)/(1-z/2)
    z = dt * ev
    gfac = 1.0 / (1.0 - z) if THETA[case["integ"]] == 1.0 else (1.0 + z / 2) / (1.0 - z / 2)
    require(float(np.max(np.abs(gfac))) <= 1 + 1e-9, "oracle-sanity", "reference amplification factor exceeds one")
    return dict(nontrivial=bool(np.max(q0) > np.min(q0)), labels=["integ:" + case["integ"], "num:" + case["num"]["name"], "cfl:" + ("<=1" if case["cfl"] <= 1 else ">1")])


# ---------------------------------------------------------------- temporal order
def strat_order(tier):
    _ex, im = cases.integrator_names()
    return st.builds(lambda md, n, num, m, ph, integ: dict(model=md, mesh=dict(kind="uni", n=n, length=1.0, x0=0.0), num=num,
                                                           field=dict(k="fourier", mean=0.3, modes=[[1.0, m, ph]]), integ=integ),
                     gen.model_convection(), st.integers(8, 16), _linear_nums(), st.integers(1, 2), gen.f(0, 1), st.sampled_from(im))


def check_order(case):
    from scipy.linalg import expm
    md, model, mesh, disc, n, q0, A, dx, zvec = _setup(case)
    T = 0.2 / abs(md["a"])
    exact = expm(T * A) @ q0
    errs = []
    for N in (16, 32):
        solver = cases.build_integrator(case["integ"], mesh, disc)
        f = cases.build_field(model, mesh, [q0])
        for _ in range(N):
            solver.step(f, T / N)
        errs.append(float(np.linalg.norm(np.asarray(f.data[0]) - exact)))
    p = 1 if THETA.get(case["integ"], 0.5) == 1.0 else 2
    if errs[1] < 1e-11 * float(np.linalg.norm(q0)):
        return dict(nontrivial=False, labels=["error-at-roundoff"])
    ratio = errs[0] / errs[1]
    require(0.7 * 2 ** p <= ratio <= 1.4 * 2 ** p, "temporal-order", "%s: error ratio under dt halving is %.3f, expected about %d (order %d; errors %.3g -> %.3g; %s, n=%d)"
            % (case["integ"], ratio, 2 ** p, p, errs[0], errs[1], case["num"]["name"], n))
    target(abs(ratio / 2 ** p - 1), "order-ratio-deviation")
    return dict(nontrivial=True, labels=["integ:" + case["integ"], "order:%d" % p])


# ---------------------------------------------------------------- Jacobian = derivative of the space operator
def strat_jac(tier):
    nmax = 8 if tier == "quick" else 14
    _ex, im = cases.integrator_names()

    def cfg(md):
        name = md["name"]
        if name == "burgers":
            state = st.builds(lambda m, amp, ph, sg: dict(u=dict(k="fourier", mean=sg * m, modes=[[amp * m, 1, ph]])), gen.f(0.5, 2.0), gen.f(0, 0.3), gen.f(0, 1), st.sampled_from([1.0, -1.0]))
            fl = st.just(None)
        else:
            mach = st.one_of(gen.f(0.2, 0.8), gen.f(1.25, 2.0)).flatmap(lambda m: st.builds(lambda sg, amp, ph: dict(k="fourier", mean=sg * m, modes=[[amp, 1, ph]]), st.sampled_from([1.0, -1.0]), gen.f(0, 0.05), gen.f(0, 1)))
            ln = st.builds(lambda mean, amp, ph: dict(k="fourier", mean=mean, modes=[[amp, 1, ph]]), gen.f(-1, 1), gen.f(0, 0.05), gen.f(0, 1))
            if name == "shallowwater":
                state = st.builds(lambda h, m: dict(lnh=h, froude=m), ln, mach)
            else:
                state = st.builds(lambda r, p, m: dict(lnrho=r, lnp=p, mach=m), ln, ln, mach)
            fl = st.sampled_from(cases.flux_names(md))
        bc = st.sampled_from(["per", "dirichlet"])
        return st.builds(lambda n, L, num, s, f_, b, integ: dict(model=md, mesh=dict(kind="uni", n=n, length=L, x0=0.0), num=num, state=s, flux=f_, bc=b, integ=integ),
                         st.integers(3, nmax), gen.logf(-1, 1), _linear_nums(), state, fl, bc, st.sampled_from(im))
    return st.one_of(gen.model_euler1d(), gen.model_euler1d(), gen.model_shallowwater(), gen.model_burgers()).flatmap(cfg)


def check_jac(case):
    md = case["model"]
    c = dict(case)
    if case["bc"] == "per":
        c["bcL"] = c["bcR"] = {"type": "per"}
        P = sim.problem1d(c)
    else:
        tmp = sim.problem1d(dict(c, bcL={"type": "per"}, bcR={"type": "per"}))
        c["bcL"] = {"type": "dirichlet", "prim": [float(x[0]) for x in tmp.prim]}
        c["bcR"] = {"type": "dirichlet", "prim": [float(x[-1]) for x in tmp.prim]}
        P = sim.problem1d(c)
    neq, n = len(P.cons), P.n
    solver = cases.build_integrator(case["integ"], P.mesh, P.disc)
    qsc, a = sim.state_scales(P.smd, P.prim)
    err1 = _judge_jacobian(solver, P, P.field.copy(), qsc, neq, n, case, "first call")
    # a second call on the SAME solver object with another state: the Jacobian used must be the derivative at that state (no stale cache)
    prim2 = [np.roll(np.asarray(x, dtype=float), 1) for x in P.prim]
    if P.smd["name"] in ("euler1d", "shallowwater"):
        prim2[0] = prim2[0] * 1.3
    else:
        prim2[0] = prim2[0] * 1.2
    f2 = cases.build_field(P.model, P.mesh, cases.cons_from_prim(P.smd, prim2))
    err2 = _judge_jacobian(solver, P, f2, qsc, neq, n, case, "second call on the same solver, other state")
    target(max(err1, err2), "jacobian-error")
    return dict(nontrivial=True, labels=["model:" + md["name"], "flux:%s" % case["flux"], "num:" + case["num"]["name"], "bc:" + case["bc"]])


def _judge_jacobian(solver, P, field, qsc, neq, n, case, what):
    md = case["model"]
    J = solver.calc_jacobian(field.copy())
    if J is None:
        J = getattr(solver, "jacobian", None)
    require(J is not None and np.asarray(J).shape == (neq * n, neq * n), "jacobian-shape", "calc_jacobian returns shape %r for %d equations x %d cells" % (np.shape(J), neq, n))
    J = np.array(J, dtype=float)
    require(np.all(np.isfinite(J)), "jacobian-finite", "Jacobian has non-finite entries on a smooth admissible state")
    ref = np.zeros_like(J)
    onesided = np.zeros_like(J)          # forward minus backward difference quotient: ~h*f'' where smooth, a finite jump at a kink
    r0 = [np.array(x, dtype=float) for x in P.disc.rhs(field.copy())]
    for i in range(n):
        for q in range(neq):
            h = 1e-5 * qsc[q]
            fp, fm = field.copy(), field.copy()
            fp.data[q][i] += h
            fm.data[q][i] -= h
            rp = [np.array(x, dtype=float) for x in P.disc.rhs(fp)]
            rm = [np.array(x, dtype=float) for x in P.disc.rhs(fm)]
            for qq in range(neq):
                ref[qq::neq, i * neq + q] = (rp[qq] - rm[qq]) / (2 * h)
                onesided[qq::neq, i * neq + q] = (rp[qq] - 2 * r0[qq] + rm[qq]) / h
    # non-dimensional comparison: row scale (residual of equation qq) / column scale (variable q)
    rs = np.tile(np.array(qsc), n)
    Jn = J * rs[None, :] / rs[:, None]
    Rn = ref * rs[None, :] / rs[:, None]
    On = onesided * rs[None, :] / rs[:, None]
    mx = float(np.max(np.abs(Rn))) + 1e-300
    kink = float(np.max(np.abs(On))) / mx
    if kink > 1e-3:
        # min()/max() wave-speed bounds, upwind switches and |u| make the operator only piecewise smooth; exactly at a kink (e.g. uniform
        # u and c, where u-c of both states and of their Roe average coincide) one-sided and central differences legitimately differ
        raise Skip("space operator not differentiable at this state (one-sided difference quotients differ)")
    err = float(np.max(np.abs(Jn - Rn))) / mx
    require(err <= 1e-4 + kink, "jacobian-is-derivative", "Jacobian (%s) differs from the central-difference derivative of the space operator by %.3g x max|J| (%s/%s, %s, bc %s, n=%d)"
            % (what, err, md["name"], case["flux"], case["num"]["name"], case["bc"], n))
    return err


SUBCHECKS = [
    SubCheck("theta_and_gear_steps", check_theta, strategy=strat_theta, examples={"quick": 600, "thorough": 2500}, shards={"quick": 6, "thorough": 16}),
    SubCheck("theta_and_gear_steps_large", check_theta, strategy=strat_theta_large, examples={"quick": 3, "thorough": 8}, shards={"quick": 4, "thorough": 8}),
    SubCheck("theta_and_gear_steps_fragile", check_theta, strategy=strat_theta_fragile, examples={"quick": 16, "thorough": 60}, shards={"quick": 4, "thorough": 8}),
    SubCheck("no_growth", check_growth, strategy=strat_growth, examples={"quick": 500, "thorough": 2000}, shards={"quick": 2, "thorough": 8}),
    SubCheck("temporal_order", check_order, strategy=strat_order, examples={"quick": 100, "thorough": 500}, shards={"quick": 3, "thorough": 8}),
    SubCheck("jacobian", check_jac, strategy=strat_jac, examples={"quick": 250, "thorough": 1000}, shards={"quick": 5, "thorough": 16}),
]

META = dict(
    level_text="Generated search over fields, meshes (non-uniform included), linear reconstructions and CFL numbers from 0.01 to 100: every step of implicit / Crank-Nicolson / gear is "
               "compared with a dense numpy solution of the theta / BDF2 system built from the harness' own operator matrix; no growth for Re z <= 0, temporal orders against expm, and "
               "the Jacobian of nonlinear models against a central-difference derivative. Exploration only.",
    level_note="trusted: numpy.linalg.qr/eigvals, scipy.linalg.solve_triangular/expm; tolerances 1e-6 (steps), 1e-4 (Jacobian), [0.7,1.4] x 2^p (order)",
    technique="property-based testing (Hypothesis given): differential against a dense reference implementation of the theta/BDF2 schemes",
)
