"""C17 - state conversions round-trip and named variables obey the ideal-gas identities.

Oracle: ideal-gas definitions written in vf/oracles.gas_vars and the oracle's own prim->cons conversion
(vf/cases.cons_from_prim); the names checked are discovered at run time from model.list_var().
"""
import math
import zlib

import numpy as np
from hypothesis import strategies as st

from vf import cases, gen, oracles
from vf.runner import SubCheck, canonical, require, target

RULE = ("cases = model (euler1d, nozzle with a section law, euler2d, shallowwater, convection, burgers; gamma in (1,2], g>0) x 1..24 cells "
        "(2-D: nx,ny in 1..5) x primitive states with ln(rho), ln(p), ln(h) over 12 decades and Mach/Froude in [-10,10], any angle in 2-D; "
        "every name in list_var() at run time is evaluated. non-trivial = at least one cell with non-zero velocity; distinct = distinct JSON")
ASSUMPTIONS = ["1-D Mach number may be signed (tests/test_2_model_euler.py::test_variables asserts asound*mach == velocity): mach^2 is compared and the sign must be that of the velocity or +",
               "relative tolerance 2e-13*(1+M^2)*gamma/(gamma-1) (pressure is a difference of energies; ptot has exponent gamma/(gamma-1))"]

LN = math.log(10.0) * 6.0     # +-6 decades  => 12 decades


def _prof(lo, hi, special=()):
    v = st.one_of(gen.f(lo, hi), st.sampled_from([0.0, lo, hi] + list(special)))
    return st.one_of(gen.prof_vals(v, 1, 9), gen.prof_const(v))


def strat(tier):
    nmax = 12 if tier == "quick" else 24
    euler_state = st.builds(lambda r, p, m, a: dict(lnrho=r, lnp=p, mach=m, angle=a),
                            _prof(-LN, LN), _prof(-LN, LN), _prof(-10, 10, [1.0, -1.0, 0.5, 3.0]), _prof(-math.pi, math.pi, [math.pi / 2, math.pi / 4]))
    sw_state = st.builds(lambda h, m: dict(lnh=h, froude=m), _prof(-LN, LN), _prof(-10, 10, [1.0, -1.0]))
    sc_state = st.builds(lambda u: dict(u=u), _prof(-1e3, 1e3, [1.0, -1.0]))
    m1 = st.builds(lambda n, L, x0: dict(kind="uni", n=n, length=L, x0=x0), st.integers(1, nmax), gen.logf(-1, 1), gen.f(-1, 1))
    m2 = gen.mesh2d(1, 5)
    return st.one_of(
        st.builds(lambda md, ms, s: dict(model=md, mesh=ms, state=s), gen.model_euler1d(), m1, euler_state),
        st.builds(lambda md, ms, s: dict(model=md, mesh=ms, state=s), gen.model_nozzle(varying=True), m1, euler_state),
        st.builds(lambda md, ms, s: dict(model=md, mesh2d=ms, state=s), gen.model_euler2d(), m2, euler_state),
        st.builds(lambda md, ms, s: dict(model=md, mesh=ms, state=s), gen.model_shallowwater(), m1, sw_state),
        st.builds(lambda md, ms, s: dict(model=md, mesh=ms, state=s), st.one_of(gen.model_convection(), gen.model_burgers()), m1, sc_state),
    )


def _close(a, b, tol, floor=0.0):
    a = np.asarray(a, dtype=float)
    b = np.asarray(b, dtype=float)
    if a.shape != b.shape:
        return False, float("inf")
    if a.size == 0:
        return True, 0.0
    err = np.abs(a - b) / (np.abs(b) + floor + 1e-300)
    bad = ~np.isfinite(a)
    if np.any(bad):
        return False, float("inf")
    return bool(np.all(np.abs(a - b) <= tol * (np.abs(b) + floor))), float(np.max(err))


def check(case):
    md = case["model"]
    name = md["name"]
    labels = ["model:" + name]
    if "mesh2d" in case:
        mesh = cases.build_mesh2d(case["mesh2d"])
        nx, ny = case["mesh2d"]["nx"], case["mesh2d"]["ny"]
        n = nx * ny
        sx = ((np.arange(n) % nx) + 0.5) / nx
        sy = ((np.arange(n) // nx) + 0.5) / ny
        prim = cases.prim_state(md, case["state"], sx, sy)
    else:
        mesh = cases.build_mesh(case["mesh"])
        n = case["mesh"]["n"]
        s = (np.arange(n) + 0.5) / n
        prim = cases.prim_state(md, case["state"], s)
    mdb = md
    if name in ("shallowwater", "euler1d", "nozzle") and md.get("source") is None and zlib.crc32(canonical(case).encode()) % 3 == 0:
        # a model that also carries user source terms (friction on the momentum equation): conversions and named variables do not involve them
        mdb = dict(md, source=[None, dict(c0=0.3, cx=0.1, cq=[0.0, -0.2]), None][:cases.model_neq(md)])
        labels.append("model-with-source")
    model = cases.build_model(mdb)
    if name == "euler2d":
        bc = {"type": "per"}
        disc = cases.build_disc2d(model, mesh, dict(name="extrapol2d1"), "hlle", {t: bc for t in mesh.list_of_bctags()})
    else:
        disc = cases.build_disc(model, mesh, dict(name="extrapol1"), None, {"type": "per"}, {"type": "per"})
    gamma = md.get("gamma", 1.4)
    cons_ref = cases.cons_from_prim(md, prim)
    # --------------------------------------------------------------- conversions
    if name in ("euler1d", "nozzle", "euler2d"):
        vel = prim[1]
        v2 = vel ** 2 if vel.ndim == 1 else vel[0] ** 2 + vel[1] ** 2
        m2 = v2 / (gamma * prim[2] / prim[0])
        tolc = 2e-13 * (1.0 + float(np.max(m2))) * gamma / (gamma - 1.0)
    elif name == "shallowwater":
        vel = prim[1]
        m2 = vel ** 2 / (md.get("g", 9.81) * prim[0])
        tolc = 2e-13
    else:
        vel = prim[0]
        m2 = vel ** 2
        tolc = 2e-13
    nontrivial = bool(np.any(vel != 0))
    labels.append("mach:%s" % ("0" if not nontrivial else "<1" if np.max(m2) < 1 else "1-9" if np.max(m2) < 9 else ">=3"))
    pin = [np.array(x, dtype=float) for x in prim]
    q = model.prim2cons([x.copy() for x in pin])
    require(len(q) == len(cons_ref), "prim2cons-len", "prim2cons returns %d arrays" % len(q))
    vscale = None
    for i, (a, b) in enumerate(zip(q, cons_ref)):
        floor = 0.0
        if i == 1 and name in ("euler1d", "nozzle", "euler2d", "shallowwater"):
            floor = 0.0
        ok, err = _close(a, b, 8e-16 * 4, floor)
        if not ok and np.ndim(b) == 2:   # vector momentum: compare against magnitude
            mag = np.sqrt(b[0] ** 2 + b[1] ** 2)
            ok = np.asarray(a).shape == b.shape and bool(np.all(np.abs(a - b) <= 4e-15 * mag[None, :]))
        require(ok, "prim2cons", "prim2cons component %d differs from the definition (rel err %.3g)" % (i, err))
    for x, y in zip(pin, prim):
        require(np.array_equal(x, y), "prim2cons-mutates-input", "prim2cons modified its argument")
    # the same numbers handed over as strided views of larger arrays give the same bits (both conversions)
    def _view(x):
        x = np.asarray(x, dtype=float)
        big = np.full(x.shape[:-1] + (2 * x.shape[-1] + 1,), 0.625)
        big[..., 1::2] = x
        return big[..., 1::2]
    qv = model.prim2cons([_view(x) for x in pin])
    for i, (a, b) in enumerate(zip(qv, q)):
        require(np.array_equal(np.asarray(a, dtype=float), np.asarray(b, dtype=float)), "prim2cons-views", "prim2cons component %d differs when the state is given as strided views of the same numbers" % i)
    pv = model.cons2prim([_view(x) for x in q])
    pc = model.cons2prim([np.array(x, dtype=float, copy=True) for x in q])
    for i, (a, b) in enumerate(zip(pv, pc)):
        require(np.array_equal(np.asarray(a, dtype=float), np.asarray(b, dtype=float)), "cons2prim-views", "cons2prim component %d differs when the data are given as strided views of the same numbers" % i)
    # round trip prim -> cons -> prim
    qq = [np.array(x, dtype=float) for x in cons_ref]
    back = model.cons2prim([x.copy() for x in qq])
    worst = 0.0
    for i, (a, b) in enumerate(zip(back, prim)):
        a = np.asarray(a, dtype=float)
        require(a.shape == np.shape(b), "cons2prim-shape", "cons2prim component %d has shape %r" % (i, a.shape))
        if np.ndim(b) == 2:
            mag = np.sqrt(b[0] ** 2 + b[1] ** 2)
            ok = bool(np.all(np.abs(a - b) <= tolc * mag[None, :] + 0.0))
            err = float(np.max(np.abs(a - b) / (mag[None, :] + 1e-300)))
        else:
            ok, err = _close(a, b, tolc)
        worst = max(worst, err / tolc if np.isfinite(err) else 1e9)
        require(ok, "roundtrip-prim", "cons2prim(prim2cons(W)) component %d differs from W by rel %.3g (tol %.3g)" % (i, err, tolc))
    # round trip cons -> prim -> cons
    q2 = model.prim2cons([np.array(x, dtype=float) for x in model.cons2prim([x.copy() for x in qq])])
    for i, (a, b) in enumerate(zip(q2, cons_ref)):
        a = np.asarray(a, dtype=float)
        if np.ndim(b) == 2:
            mag = np.sqrt(b[0] ** 2 + b[1] ** 2)
            ok = a.shape == b.shape and bool(np.all(np.abs(a - b) <= tolc * mag[None, :]))
            err = 0.0
        else:
            ok, err = _close(a, b, tolc)
        require(ok, "roundtrip-cons", "prim2cons(cons2prim(Q)) component %d differs from Q by rel %.3g" % (i, err))
    # fdata_fromprim goes through the same conversion
    f = disc.fdata_fromprim([np.array(x, dtype=float) for x in prim])
    for i, (a, b) in enumerate(zip(f.data, cons_ref)):
        require(np.asarray(a).shape == np.shape(b) and np.allclose(a, b, rtol=4e-15, atol=0), "fdata_fromprim", "fdata_fromprim component %d differs from the conservative state" % i)
    target(worst, "roundtrip-error/tol")
    # --------------------------------------------------------------- named variables
    field = cases.build_field(model, mesh, cons_ref)
    names = sorted(model.list_var())
    labels.append("nvars:%d" % len(names))
    if name in ("euler1d", "nozzle", "euler2d"):
        ref = oracles.gas_vars(gamma, prim[0], prim[1], prim[2])
        if name == "euler1d":
            ref["massflow"] = prim[0] * prim[1]
        if name == "nozzle":
            xc = np.asarray(cases.faces_of(case["mesh"]))
            xc = 0.5 * (xc[1:] + xc[:-1])
            ref["massflow"] = prim[0] * prim[1] * cases.section_fn(md["section"])(xc)
    elif name == "shallowwater":
        ref = dict(height=prim[0], massflow=prim[0] * prim[1], velocity=prim[1])
    elif name == "convection":
        ref = dict(q=prim[0])
    else:
        ref = {}
    keep_field = [np.array(d, dtype=float, copy=True) for d in field.data]
    for nm in names + names[::-1]:          # every name, then again in reverse order on the same field: evaluating one variable must not change another
        val = np.asarray(field.phydata(nm), dtype=float)
        require(all(np.array_equal(a, b) for a, b in zip(field.data, keep_field)), "var-mutates-field", "evaluating %s.%s modified the conservative data of the field" % (name, nm))
        vector = (name == "euler2d" and nm == "velocity")
        require(val.shape == ((2, n) if vector else (n,)), "var-shape", "%s.%s has shape %r, expected one value per cell (%d cells)" % (name, nm, val.shape, n))
        require(np.all(np.isfinite(val)), "var-finite", "%s.%s is not finite" % (name, nm))
        if nm == "mach":
            mref = ref["mach2"]
            ok, err = _close(val ** 2, mref, 2 * tolc)
            require(ok, "var:mach", "mach^2 differs from |v|^2/c^2 by rel %.3g" % err)
            if name == "euler2d":
                require(np.all(val >= 0), "var:mach-sign", "2-D Mach number negative")
            else:
                u = prim[1]
                require(np.all((val >= 0) | (np.sign(val) == np.sign(u))), "var:mach-sign", "sign of the 1-D Mach number is neither + nor that of the velocity")
            continue
        if nm not in ref:
            labels.append("undefined-var:" + nm)
            continue
        r = np.asarray(ref[nm], dtype=float)
        if nm == "entropy":
            ok = bool(np.all(np.abs(val - r) <= tolc * (1.0 + np.abs(r))))
            err = float(np.max(np.abs(val - r)))
        elif vector:
            mag = np.sqrt(r[0] ** 2 + r[1] ** 2)
            ok = bool(np.all(np.abs(val - r) <= tolc * mag[None, :]))
            err = float(np.max(np.abs(val - r)))
        elif nm in ("velocity", "velocity_x", "velocity_y", "massflow", "kinetic_energy", "kinetic-energy", "velocitymag", "q"):
            if name == "euler2d":
                sc = np.sqrt(prim[1][0] ** 2 + prim[1][1] ** 2) * (prim[0] ** (1 if nm in ("kinetic_energy", "kinetic-energy") else 0))
                sc = sc * (np.sqrt(prim[1][0] ** 2 + prim[1][1] ** 2) if nm in ("kinetic_energy", "kinetic-energy") else 1.0)
                ok = bool(np.all(np.abs(val - r) <= 1e-13 * sc))
                err = float(np.max(np.abs(val - r)))
            else:
                ok, err = _close(val, r, 1e-13)
        else:
            ok, err = _close(val, r, 2 * tolc)
        require(ok, "var:" + nm, "%s.%s differs from its definition (err %.3g, tol %.3g)" % (name, nm, err, tolc))
        # average() goes through the same variable
    # --------------------------------------------------------------- the field is then advanced IN PLACE (one step of the one-stage explicit integrator, which updates its
    # argument) and every variable is asked again: it describes the state the field holds NOW.  Reference: the model's own nameddata on a fresh field of the new data
    # (itself judged above on another state), so this is only about the field object remembering its past.
    try:
        dt = 0.05 * float(np.min(disc.calc_timestep(field, 1.0)))
        if np.isfinite(dt) and dt > 0:
            cases.build_integrator("explicit", mesh, disc).step(field, dt)
            newdata = [np.array(d, dtype=float, copy=True) for d in field.data]
            if all(np.all(np.isfinite(d)) for d in newdata) and any(float(np.max(np.abs(a - b))) > 0 for a, b in zip(newdata, keep_field)):
                fresh = cases.build_field(model, mesh, newdata)
                for nm in names:
                    vnow = np.asarray(field.phydata(nm), dtype=float)
                    vref = np.asarray(fresh.phydata(nm), dtype=float)
                    if not np.all(np.isfinite(vref)):
                        continue
                    require(vnow.shape == vref.shape and np.array_equal(vnow, vref), "var-after-inplace-update", "%s.%s of a field that was evaluated, then advanced in place by explicit.step, is not that of "
                            "the state it holds now (max difference %.3g)" % (name, nm, float(np.max(np.abs(vnow - vref))) if vnow.shape == vref.shape else float("nan")))
                labels.append("advanced-in-place")
    except (FloatingPointError, ZeroDivisionError):
        pass
    # --------------------------------------------------------------- whole-number states held in integer arrays (rho = 2, a Sod tube written np.where(x < .5, 8, 1))
    def _whole(x, lo, hi):
        return np.clip(np.rint(np.asarray(x, dtype=float)), lo, hi).astype(np.int64)
    if name in ("euler1d", "nozzle", "euler2d"):
        wi = [_whole(prim[0], 1, 9), _whole(prim[1], -3, 3), _whole(prim[2], 1, 9)]
    elif name == "shallowwater":
        wi = [_whole(prim[0], 1, 9), _whole(prim[1], -3, 3)]
    else:
        wi = [_whole(prim[0], -9, 9)]
    fi = disc.fdata_fromprim([w.copy() for w in wi])
    ff = disc.fdata_fromprim([w.astype(float) for w in wi])
    for nm in names:
        vi = np.asarray(fi.phydata(nm), dtype=float)
        vf_ = np.asarray(ff.phydata(nm), dtype=float)
        require(vi.shape == vf_.shape and bool(np.all(np.abs(vi - vf_) <= 1e-13 * (np.abs(vf_) + float(np.max(np.abs(vf_))) * 1e-3) + 1e-300)), "var-integer-data",
                "%s.%s of a whole-number state held in integer arrays differs from the same state in float arrays (max difference %.3g)" % (name, nm, float(np.max(np.abs(vi - vf_))) if vi.shape == vf_.shape else float("nan")))
    back_i = model.cons2prim([np.array(x, copy=True) for x in fi.data])
    for i, (a, b) in enumerate(zip(back_i, wi)):
        require(np.allclose(np.asarray(a, dtype=float), b.astype(float), rtol=1e-13, atol=1e-13), "roundtrip-integer-data", "cons2prim(prim2cons(W)) component %d differs from W for a whole-number state held in integer arrays" % i)
    return dict(nontrivial=nontrivial, labels=labels)


SUBCHECKS = [
    SubCheck("conversions_and_variables", check, strategy=strat, examples={"quick": 600, "thorough": 4000}, shards={"quick": 4, "thorough": 16}),
]

META = dict(
    level_text="Generated search over admissible states (12 decades, Mach up to 10, any angle, gamma in (1,2]) for all six models; both conversions "
               "are compared with the oracle's own conversion and every registered variable name with its textbook definition, including the "
               "one-value-per-cell shape in 1-D and 2-D. Exploration only.",
    level_note="trusted: numpy; ideal-gas definitions in vf/oracles.py; tolerance 2e-13*(1+M^2)*gamma/(gamma-1); signed 1-D Mach accepted",
    technique="property-based testing (Hypothesis given): round-trip + differential against reference definitions",
)
