"""C07 - time bookkeeping: steps advance by dt, snapshots land on the requested times.

Histories (save-time lists, stop criteria, optional restart) are generated RELATIVE to the reference trajectory so the interesting shapes are reached
by construction: the start time itself, several times inside one step, times on a step boundary, times beyond the stop.
Oracle: a reference driver written here (repeated calc_timestep -> step through a separate solver object of the same class), from which the
trajectory states, the admissible snapshot set and the iteration counts follow; snapshots are judged as "a forward step of at most one CFL
step from a trajectory state", not against one particular implementation of the save logic.
"""
import copy

import numpy as np
from hypothesis import strategies as st

from vf import cases, gen, sim
from vf.runner import Skip, SubCheck, require, target

RULE = ("single step: every integrator x {convection, burgers, shallowwater, euler1d} x scalar or per-cell dt x t0; histories: every integrator x small model (2..8 cells, periodic) x CFL x "
        "start time x save-time list given as (step index, fraction) pairs incl. fraction 0/1 (the start time, step boundaries), 2-4 times inside one step, times beyond the stop x stop in "
        "{default from tsave, tottime, maxit, both} x dtlocal on/off x optional restart with a second list. non-trivial = at least one save time strictly inside a step; distinct = distinct JSON")
ASSUMPTIONS = ["a step advances the time by dt to 4 ulp (rk4's weights sum to 0.9999999999999999)",
               "snapshots: requested time to 8 ulp; data equal (1e-12 relative) to a forward step of length <= one CFL step from a trajectory state; a save time within 1e-12 (relative) of a step "
               "boundary may be served from either neighbouring trajectory state; save times in (tottime, end of the last step] may or may not be returned (the property is silent)",
               "gear is not used in the restart phase here (its history across restart is C08's subject)"]

EPS = np.finfo(float).eps


# ---------------------------------------------------------------- small problems
def _problem():
    conv = st.builds(lambda md, s: (md, s, None), gen.model_convection(), gen.state_scalar(True, -2.0, 2.0, special=False))
    burg = st.builds(lambda s: (dict(name="burgers"), s, None), gen.state_scalar(True, 0.3, 2.0, special=False))
    eul = st.builds(lambda md, s, fl: (md, s, fl), gen.model_euler1d(), gen.state_euler(False, lnrange=0.5, machmax=1.2, smooth_amp=0.1), st.sampled_from(["hlle", "hllc"]))
    sw = st.builds(lambda md, s, fl: (md, s, fl), gen.model_shallowwater(), gen.state_sw(False, lnrange=0.5, frmax=1.2, smooth_amp=0.1), st.sampled_from(["hll", "rusanov"]))
    e2d = st.builds(lambda md, s, fl, me, k: (md, s, fl, me, k), gen.model_euler2d(), gen.state_euler2d(False, lnrange=0.4, machmax=1.0, smooth_amp=0.1), st.sampled_from(["hlle", "centered"]),
                    gen.mesh2d(2, 3), st.one_of(st.none(), gen.f(-1, 1)))
    spiky = st.builds(lambda s: (dict(name="burgers"), s, None), gen.state_burgers_spiky())        # time step varies strongly from one iteration to the next
    return st.one_of(conv, conv, burg, spiky, eul, sw, e2d)


def _build(case):
    md = case["model"]
    if md["name"] == "euler2d":
        per = {"type": "per"}
        num = dict(name="extrapol2d1") if case.get("k2d") is None else dict(name="extrapol2dk", k=case["k2d"])
        P = sim.problem2d(dict(model=md, mesh2d=case["mesh2d"], num=num, flux=case["flux"], state=case["state"], bc=dict(left=per, right=per, bottom=per, top=per)))
        P.field.time = case.get("t0", 0.0)
        return P
    c = dict(model=md, mesh=case["mesh"], num=case["num"], flux=case["flux"], state=case["state"], bcL={"type": "per"}, bcR={"type": "per"})
    P = sim.problem1d(c)
    P.field.time = case.get("t0", 0.0)
    return P


def _pr(pr, integ):
    """problem tuple -> descriptor keys; implicit integrators do not support the vector momentum of euler2d: explicit one instead"""
    d = dict(model=pr[0], state=pr[1], flux=pr[2])
    if len(pr) > 3:
        d.update(mesh2d=pr[3], k2d=pr[4])
        if cases.is_implicit(integ):
            integ = "rk3ssp"
    d["integ"] = integ
    return d


def _mesh():
    return st.one_of(gen.mesh_uniform(2, 8), gen.mesh_faces(2, 8, maxratio=4.0))


def _unit():
    """length (hence time) unit: nanometres to kilometres; the start time is expressed in the same unit"""
    return st.one_of(st.just(1.0), st.just(1.0), gen.logf(-9, 3))


def _num():
    return st.sampled_from([dict(name="extrapol1"), dict(name="extrapol2"), dict(name="extrapol3"), dict(name="muscl", limiter="minmod")])


# ---------------------------------------------------------------- single step
def strat_step(tier):
    ex, im = cases.integrator_names()
    return st.builds(lambda pr, me, num, integ, t0, cfl, loc, u: dict(_pr(pr, integ), mesh=cases.scale_mesh(me, u), num=num, t0=t0 * u, cfl=cfl, local=loc, unit=u),
                     _problem(), _mesh(), _num(), st.sampled_from(ex + im), st.one_of(st.just(0.0), gen.sfloat(-2, 3)), gen.logf(-2, 0), st.booleans(), _unit())


def check_step(case):
    P = _build(case)
    solver = cases.build_integrator(case["integ"], P.mesh, P.disc)
    f = P.field.copy()
    t0 = f.time
    dtloc = np.asarray(P.disc.calc_timestep(f, case["cfl"]), dtype=float)
    if not np.all(np.isfinite(dtloc)):
        raise Skip("infinite time step (burgers cell with u = 0)")
    local = case["local"] and case["integ"] != "gear"
    dt = dtloc if local else float(np.min(dtloc))
    keep = sim.copy_data(f)
    solver.step(f, dt)
    dmin = float(np.min(dtloc))
    require(abs(f.time - (t0 + dmin)) <= 4 * EPS * (abs(t0) + dmin), "step-advances-dt", "%s.step(dt=%r%s) moves the time from %r to %r (advance %r)"
            % (case["integ"], dmin, " = min of a per-cell array" if local else "", t0, f.time, f.time - t0))
    # (whether the data stay finite is not part of this property: an extrapolating reconstruction on 2 cells at CFL 1 may push a stage out of the admissible set)
    return dict(nontrivial=True, labels=["integ:" + case["integ"], "dt:" + ("local" if local else "scalar"), "model:" + case["model"]["name"], "t0" + ("=0" if t0 == 0 else "!=0")])


# ---------------------------------------------------------------- histories
def _rel_times():
    """save times relative to the trajectory: (step index, fraction of that step)"""
    frac = st.one_of(gen.f(0.01, 0.99), st.sampled_from([0.0, 1.0, 0.5, 0.25, 0.75]))
    one = st.tuples(st.integers(0, 9), frac).map(list)
    cluster = st.builds(lambda k, fr: [[k, x] for x in fr], st.integers(0, 6), st.lists(gen.f(0.02, 0.98), min_size=2, max_size=4))
    return st.builds(lambda a, b, start: ([[0, 0.0]] if start else []) + a + [x for c_ in b for x in c_],
                     st.lists(one, min_size=0, max_size=5), st.lists(cluster, min_size=0, max_size=2), st.booleans())


def _stop():
    frac = st.one_of(gen.f(0.0, 1.0), st.sampled_from([0.0, 1.0]))
    return st.one_of(st.just(dict(kind="default")),
                     st.builds(lambda k, fr: dict(kind="tottime", at=[k, fr]), st.integers(0, 8), frac),
                     st.builds(lambda m: dict(kind="maxit", maxit=m), st.integers(0, 8)),
                     st.builds(lambda k, fr, m: dict(kind="both", at=[k, fr], maxit=m), st.integers(0, 8), frac, st.integers(0, 8)))


def strat_hist(tier):
    ex, im = cases.integrator_names()
    return st.builds(lambda pr, me, num, integ, t0, cfl, ts, stp, dtl, rst, ts2, stp2, reuse, u: dict(
        _pr(pr, integ), mesh=cases.scale_mesh(me, u), num=num, t0=t0 * u, cfl=cfl, tsave=ts, stop=stp, dtlocal=dtl, restart=rst, tsave2=ts2, stop2=stp2, reuse=reuse, unit=u),
        _problem(), _mesh(), _num(), st.sampled_from(ex + im), st.one_of(st.just(0.0), gen.sfloat(-1, 2)), gen.f(0.05, 0.9), _rel_times(), _stop(), st.booleans(), st.booleans(), _rel_times(), _stop(),
        st.sampled_from(["none", "none", "stop", "tsave", "both"]), _unit()).flatmap(
        lambda c: st.builds(lambda c2: dict(c, cfl2=c2), st.one_of(st.none(), st.none(), gen.f(0.05, 0.9))))


class Trajectory(object):
    """reference trajectory Q_0, Q_1, ... by repeated calc_timestep -> step on a separate solver object"""

    def __init__(self, P, integ, cfl, f0, dtlocal, prev_solver=None):
        self.P, self.cfl, self.dtlocal = P, cfl, dtlocal
        self.solver = prev_solver if prev_solver is not None else cases.build_integrator(integ, P.mesh, P.disc)
        self.states = [f0.copy()]
        self.solvers = []        # solver object (shallow copy: keeps multistep history) as it is BEFORE the step from state n
        self.dts = []

    def extend(self, n):
        while len(self.states) <= n:
            q = self.states[-1]
            dtloc = np.asarray(self.P.disc.calc_timestep(q, self.cfl), dtype=float)
            dmin = float(np.min(dtloc))
            self.solvers.append(copy.copy(self.solver))
            new = q.copy()
            self.solver.step(new, dtloc if self.dtlocal else dmin)
            self.dts.append(dmin)
            self.states.append(new)

    def time(self, n):
        self.extend(n)
        return self.states[n].time

    def dt(self, n):
        self.extend(n + 1)
        return self.dts[n]

    def rel(self, k, frac):
        """time at fraction frac of step k"""
        self.extend(k + 1)
        if frac <= 0.0:
            return self.states[k].time
        if frac >= 1.0:
            return self.states[k + 1].time
        return self.states[k].time + frac * self.dts[k]

    def side_step(self, n, d):
        self.extend(n + 1)
        q = self.states[n].copy()
        if d > 0:
            copy.copy(self.solvers[n]).step(q, d)
        return q


def _materialise(traj, rel):
    ts = sorted(set(float(traj.rel(k, fr)) for k, fr in rel))
    if not all(np.isfinite(t) for t in ts) or not all(sim.admissible(traj.P.smd, s_.data) for s_ in traj.states):
        raise Skip("trajectory leaves the admissible set")
    out = []
    for t in ts:      # requested times closer than a few ulp are one and the same request
        if not out or t - out[-1] > 64 * EPS * max(abs(t), abs(out[-1]), abs(float(traj.time(0)))):      # (ulp of the times the run passes through, incl. its start)
            out.append(t)
    return out


def _stop_dict(traj, stop, tsave):
    d = {}
    if stop["kind"] in ("tottime", "both"):
        d["tottime"] = float(traj.rel(*stop["at"]))
        if not np.isfinite(d["tottime"]) or not all(sim.admissible(traj.P.smd, s_.data) for s_ in traj.states):
            raise Skip("trajectory leaves the admissible set")
    if stop["kind"] in ("maxit", "both"):
        d["maxit"] = stop["maxit"]
    eff = dict(d)
    if len(tsave) > 0 and "tottime" not in eff:
        eff["tottime"] = tsave[-1]
    if stop["kind"] == "default" and not tsave:
        d = {"maxit": 3}
        eff = dict(d)
    return (d if d else None), eff


def _nsteps(traj, eff):
    n = 0
    while True:
        t = traj.time(n)
        if ("tottime" in eff and t >= eff["tottime"]) or ("maxit" in eff and n >= eff["maxit"]):
            return n
        n += 1
        if n > 60:
            raise Skip("history longer than 60 steps")


def _same(a, b, tol=1e-12):
    for x, y in zip(a.data, b.data):
        sc = float(np.max(np.abs(y))) + 1e-300
        if not np.all(np.abs(np.asarray(x) - np.asarray(y)) <= tol * sc):
            return False
    return True


def _judge(P, case, traj, f0, tsave, stop_arg, eff, call, restart_it=None, tsave_obj=None):
    """run solver.<call>(f0, cfl, tsave, stop=...) on a recording solver and judge the result against the trajectory"""
    import flowdyn.integration as integ
    cls = getattr(integ, case["integ"])
    log = []

    class Rec(cls):
        def step(self, f, dtloc):
            log = self._vf_log
            log.append((f.time, sim.copy_data(f), float(np.min(dtloc))))
            if len(log) > 400:
                from vf.runner import Violation
                raise Violation("solve-terminates", "more than 400 steps taken for a history of at most 60 steps: the run does not stop (time at entry %r, dt %r)" % (f.time, float(np.min(dtloc))))
            return cls.step(self, f, dtloc)
    solver = call["solver"] if call.get("solver") is not None else Rec(P.mesh, P.disc)
    if call.get("solver") is None and P.smd["name"] != "euler2d":
        solver._vf_log = []
        sim.preuse_solver(P, solver, case, case["cfl"])          # a new solver object may already have a past (see sim.preuse_solver); solve() starts afresh
    solver._vf_log = log          # (a restart re-uses the solver object of the preceding solve, as a user would)
    call["log"] = log
    keep_data, keep_time, keep_it = sim.copy_data(f0), f0.time, f0.it
    directives = {"dtlocal": True} if case["dtlocal"] else {}
    N = _nsteps(traj, eff)
    for n in range(N + 1):
        if not sim.admissible(P.smd, traj.states[n].data):
            raise Skip("trajectory leaves the admissible set")
    traj.extend(N + 1)
    if min(traj.dts[:N + 1]) < 1e-6 * traj.dts[0] or not np.isfinite(traj.dts[N]):
        raise Skip("trajectory blows up (time step collapses): unstable configuration")
    fn = solver.restart if call["name"] == "restart" else solver.solve
    res = fn(f0, case["cfl"], (list(tsave) if tsave_obj is None else tsave_obj), stop=stop_arg, directives=directives)
    what = "%s(%s, cfl=%g, tsave=%r, stop=%r%s)" % (call["name"], case["integ"], case["cfl"], [round(t, 6) for t in tsave], stop_arg, ", dtlocal" if case["dtlocal"] else "")
    # caller's field untouched
    require(f0.time == keep_time and f0.it == keep_it and all(np.array_equal(a, b) for a, b in zip(f0.data, keep_data)), "caller-field-unchanged", "%s modified the caller's initial field" % what)
    # iteration counter = number of full steps = first step satisfying a stop criterion
    require(solver.nit() == N, "iteration-count", "%s: nit() = %d but the first trajectory step meeting a stop criterion is %d (trajectory times %r)"
            % (what, solver.nit(), N, [round(traj.time(n), 6) for n in range(min(N + 2, 8))]))
    itstart = 0 if restart_it is None else restart_it
    require(solver.totnit() == itstart + N, "total-iteration-count", "%s: totnit() = %d, expected %d" % (what, solver.totnit(), itstart + N))
    t_start, t_end = traj.time(0), traj.time(N)
    T = eff.get("tottime", float("inf"))
    rtol = 1e-12
    # times are sums/differences of numbers of size |t|: a save time or a side-step length carries an absolute round-off of a few ulp(|t|)
    slack = 32 * EPS * max(abs(t_start), abs(t_end)) + rtol * abs(t_end - t_start)

    def near(a, b):
        return abs(a - b) <= slack
    required = [t for t in tsave if (t >= t_start or near(t, t_start)) and t <= min(T, t_end)]
    optional = [t for t in tsave if t > min(T, t_end) and (t <= t_end or near(t, t_end))]
    snaps = list(res)
    times = [s.time for s in snaps]
    fallback = False
    if len(snaps) == 1 and not required and not any(near(times[0], t) for t in optional) and N > 0:
        fallback = True        # no snapshot requested inside the run: the final state is returned instead
    if fallback:
        require(near(times[0], t_end) and _same(snaps[0], traj.states[N]), "final-state", "%s: no save time inside the run, but the single returned field (time %r) is not the final state (time %r)" % (what, times[0], t_end))
        require(all(np.all(np.isfinite(d)) for d in snaps[0].data), "final-finite", "final state not finite")
    else:
        # every returned snapshot is stamped with a requested time, in order
        idx = []
        for s in snaps:
            j = [i for i, t in enumerate(tsave) if abs(s.time - t) <= 8 * EPS * max(abs(t), abs(t_end), abs(t_start))]
            require(len(j) > 0, "snapshot-time", "%s: a returned snapshot is stamped %r, which is not a requested save time" % (what, s.time))
            idx.append(j[0])
        require(all(b > a for a, b in zip(idx, idx[1:])), "snapshot-order", "%s: snapshots are not in increasing order of the requested times (indices %r)" % (what, idx))
        got = set(idx)
        for i, t in enumerate(tsave):
            if t in required and not (near(t, t_end) and t > t_end):
                require(i in got, "snapshot-missing", "%s: no snapshot for the requested time %r (start %r, stop %r, last step ends at %r); returned times %r"
                        % (what, t, t_start, T, t_end, [round(x, 6) for x in times]))
            elif t in optional or t in required:
                pass
            else:
                require(i not in got, "snapshot-unexpected", "%s: a snapshot is returned for %r, outside the run [%r, %r]" % (what, t, t_start, t_end))
        # each snapshot = forward step of at most one CFL step from a trajectory state
        for s, i in zip(snaps, idx):
            t = tsave[i]
            cands = []
            for n in range(N + 1):
                tn = traj.time(n)
                if tn <= t or near(tn, t):
                    if n < N + 1:
                        dn = traj.dt(n) if n < N else traj.dt(n)
                        if t - tn <= dn * (1 + 1e-12) + slack:
                            cands.append(n)
            require(len(cands) > 0, "snapshot-reach", "%s: requested time %r is not within one CFL step of any trajectory state" % (what, t))
            ok, okn = False, None
            for n in cands:
                d = max(t - traj.time(n), 0.0)
                if d <= rtol * abs(traj.dt(n)) + slack:
                    ref = traj.states[n]
                else:
                    ref = traj.side_step(n, t - traj.time(n))
                if _same(s, ref):
                    ok, okn = True, n
                    break
            fin = all(np.all(np.isfinite(d)) for d in s.data)
            require(fin, "snapshot-finite", "%s: the snapshot at %r is not finite although the trajectory is" % (what, t))
            require(ok, "snapshot-state", "%s: the snapshot at %r is not the state reached by a forward step of length %r from the trajectory state at %r (step n=%r, dt_CFL=%r)"
                    % (what, t, t - traj.time(cands[-1]), traj.time(cands[-1]), cands, traj.dt(cands[-1])))
            require(s.it in [itstart + n for n in cands], "snapshot-it", "%s: the snapshot at %r carries it=%r, expected %r (+%d from restart)" % (what, t, s.it, cands, itstart))
    # every recorded step: forward, at most one CFL step, starting from a trajectory state
    for (t, data, d) in log:
        n = [k for k in range(N + 1) if near(traj.time(k), t)]
        require(len(n) > 0, "step-from-trajectory", "%s: a step starts at time %r, which is not a trajectory time" % (what, t))
        k = n[0]
        st_ = traj.states[k]
        require(all(np.array_equal(a, b) or np.allclose(a, b, rtol=1e-13, atol=0) for a, b in zip(data, st_.data)), "step-from-trajectory", "%s: a step starting at %r does not start from the trajectory state" % (what, t))
        require(d >= 0 or abs(d) <= rtol * traj.dt(k) + slack, "step-forward", "%s: a step of negative length %r is taken from time %r" % (what, d, t))
        require(d <= traj.dt(k) * (1 + 1e-12) + slack, "step-within-cfl", "%s: a step of length %r exceeds the CFL step %r at time %r" % (what, d, traj.dt(k), t))
    return res, solver, N, fallback


def check_hist(case):
    P = _build(case)
    f0 = P.field.copy()
    if case["model"]["name"] == "burgers" and np.any(f0.data[0] == 0):
        raise Skip("burgers cell with u = 0")
    traj = Trajectory(P, case["integ"], case["cfl"], f0, case["dtlocal"])
    try:
        traj.extend(2)
    except np.linalg.LinAlgError:
        raise Skip("trajectory leaves the admissible set")
    if not all(sim.admissible(P.smd, s.data) for s in traj.states):
        raise Skip("trajectory leaves the admissible set")
    tsave = _materialise(traj, case["tsave"])
    stop_arg, eff = _stop_dict(traj, case["stop"], tsave)
    call = dict(name="solve")
    # the caller's own argument objects, handed again to the restart when the history says so ("reuse"): what they mean is their content at the first call
    tsave_obj = list(tsave)
    stop_orig = copy.deepcopy(stop_arg)
    res, solver, N, fb = _judge(P, case, traj, f0, tsave, stop_arg, eff, call, tsave_obj=tsave_obj)
    labels = ["integ:" + case["integ"], "model:" + case["model"]["name"], "stop:" + case["stop"]["kind"], "dtlocal" if case["dtlocal"] else "dtglobal", "nsave:%d" % min(len(tsave), 3),
              "N:%d" % min(N, 3), "implicit" if cases.is_implicit(case["integ"]) else "explicit"]
    if any(fr == 0.0 and k == 0 for k, fr in case["tsave"]):
        labels.append("save-at-start")
    steps = {}
    for k, fr in case["tsave"]:
        if 0.0 < fr < 1.0:
            steps[k] = steps.get(k, 0) + 1
    if any(v >= 2 for v in steps.values()):
        labels.append(">=2-saves-in-one-step")
    nontrivial = any(0.0 < fr < 1.0 for k, fr in case["tsave"])
    # restart phase
    if case["restart"] and len(res) > 0 and case["integ"] != "gear":
        f1 = res[-1]
        if all(np.all(np.isfinite(d)) for d in f1.data):
            # restart() continues the computation on the same solver object and keeps what that object cached (the Jacobian of a linear
            # model): the reference continues from a shallow copy of it (with its own step log)
            refsolver = copy.copy(solver)
            refsolver._vf_log = []
            case2 = dict(case, cfl=case.get("cfl2") or case["cfl"])        # the continuation may ask for another CFL number
            traj2 = Trajectory(P, case["integ"], case2["cfl"], f1, case["dtlocal"], prev_solver=refsolver)
            traj2.extend(2)
            if all(sim.admissible(P.smd, s.data) for s in traj2.states):
                reuse = case.get("reuse", "none")
                tsave2 = _materialise(traj2, case["tsave2"]) if reuse not in ("tsave", "both") else list(tsave)
                if reuse in ("stop", "both"):
                    stop2 = stop_arg                      # the very same dictionary object as in the first call
                    eff2 = dict(stop_orig or {})
                    if len(tsave2) > 0 and "tottime" not in eff2:
                        eff2["tottime"] = tsave2[-1]
                    if not eff2:
                        raise Skip("restart without any stop criterion")
                else:
                    stop2, eff2 = _stop_dict(traj2, case["stop2"], tsave2)
                call2 = dict(name="restart", solver=solver)
                _judge(P, case2, traj2, f1, tsave2, stop2, eff2, call2, restart_it=max(f1.it, 0), tsave_obj=(tsave_obj if reuse in ("tsave", "both") else None))
                labels.append("restart")
                if case2["cfl"] != case["cfl"]:
                    labels.append("restart-with-another-cfl")
                labels.append("restart-reuse:" + reuse)
    return dict(nontrivial=nontrivial, labels=labels)


REQUIRED_LABELS = ['histories/save-at-start', 'histories/>=2-saves-in-one-step', 'histories/restart', 'histories/implicit', 'histories/integ:gear', 'histories/stop:tottime', 'histories/stop:maxit', 'histories/stop:both', 'histories/stop:default', 'histories/dtlocal', 'histories/N:0', 'single_step/dt:local']

SUBCHECKS = [
    SubCheck("single_step", check_step, strategy=strat_step, examples={"quick": 400, "thorough": 2500}, shards={"quick": 3, "thorough": 12}),
    SubCheck("histories", check_hist, strategy=strat_hist, examples={"quick": 250, "thorough": 1500}, shards={"quick": 8, "thorough": 16}),
]

META = dict(
    level_text="Generated call histories (save-time lists built relative to the reference trajectory: the start time, several times inside one step, step boundaries, times beyond the stop; "
               "stop by tottime / maxit / both / default; dtlocal; optional restart) for every integrator class on small periodic problems; the returned snapshot set, their stamps, states "
               "(a forward step of at most one CFL step from a trajectory state), iteration counts, every step the solver takes (recording subclass) and the caller's field are judged "
               "against a reference driver. Exploration only.",
    level_note="trusted: numpy; the reference driver in vf/props/c07.py (uses the integrator's own step() through separate solver objects); tolerances as listed",
    technique="property-based testing over generated call histories against a reference model of solve/restart (model-based testing)",
)
