"""C09 - limited schemes obey the maximum principle and are TVD for scalar laws.

Invariant over a history of steps: after every step  min u <= u' <= max u  and  TV(u') <= TV(u)  (to round-off).
"""
import numpy as np
from hypothesis import strategies as st

from vf import cases, gen, sim
from vf.runner import Skip, SubCheck, require, target

RULE = ("first_order: convection(+/-a) x extrapol1 x any mesh (uniform/refined/morphed/arbitrary faces, 3..40 cells) x {periodic, dirichlet inflow inside the data range} x "
        "{explicit, forwardeuler, rk2_heun, rk3ssp} x CFL in (0,1] x 1..12 steps; muscl: {convection(+/-a), burgers} x {extrapol1, muscl x 4 limiters} x uniform periodic mesh x "
        "same integrators x CFL in (0,1/2] x 1..12 steps; data = random values, values from {-2,-1,0,.5,1,2} (exact ties / antisymmetric neighbours), steps, sawtooth, smooth, "
        "sign-changing. non-trivial = non-constant data; distinct = distinct canonical JSON")
ASSUMPTIONS = ["tolerance 1e-13 * n * max|u| on range and total variation", "total variation includes the periodic wrap-around difference on periodic meshes"]

SSP = ["explicit", "forwardeuler", "rk2_heun", "rk3ssp"]


def _data():
    return gen.state_scalar(True, -2.0, 2.0)


def strat_first(tier):
    nmax = 40 if tier == "quick" else 200
    cfl = st.one_of(gen.f(0.01, 1.0), st.sampled_from([1.0, 0.5, 0.9999]))
    return st.builds(lambda md, me, s, integ, c, ns, per: dict(model=md, mesh=me, state=s, num=dict(name="extrapol1"), integ=integ, cfl=c, nsteps=ns, periodic=per),
                     gen.model_convection(), gen.mesh_any(3, nmax), _data(), st.sampled_from(SSP), cfl, st.integers(1, 12), st.booleans())


def strat_muscl(tier):
    nmax = 40 if tier == "quick" else 200
    cfl = st.one_of(gen.f(0.01, 0.5), st.sampled_from([0.5, 0.25, 0.4999]))
    num = st.one_of(gen.num_muscl(), gen.num_muscl(), gen.num_first())
    # origin of the mesh in units of the cell size: 0, a fraction of a cell on either side, the domain centred on the origin, far away
    x0c = st.one_of(st.just(0.0), st.sampled_from([-0.5, -1.0, -1.5, 0.5, -3.0]), gen.f(-2.5, 2.5), gen.f(-50, 50))
    return st.builds(lambda md, n, L, s, nm, integ, c, ns, xc: dict(model=md, mesh=dict(kind="uni", n=n, length=L, x0=(-0.5 * L if xc is None else xc * L / n)), state=s, num=nm, integ=integ, cfl=c, nsteps=ns, periodic=True),
                     st.one_of(gen.model_convection(), gen.model_burgers()), st.integers(3, nmax), gen.logf(-1, 1), _data(), num, st.sampled_from(SSP), cfl, st.integers(1, 12),
                     st.one_of(x0c, st.none()))


def tv(u, periodic):
    t = float(np.sum(np.abs(np.diff(u))))
    if periodic:
        t += abs(float(u[0] - u[-1]))
    return t


def check(case):
    md = case["model"]
    c = dict(case)
    if case["periodic"]:
        c["bcL"] = c["bcR"] = {"type": "per"}
    P0 = None
    if not case["periodic"]:
        # inflow value inside the range of the data; downstream state is irrelevant for the upwind flux
        tmp = dict(c, bcL={"type": "per"}, bcR={"type": "per"})
        P0 = sim.problem1d(tmp)
        u0 = P0.prim[0]
        inflow = float(0.5 * (np.min(u0) + np.max(u0)))
        c["bcL"] = {"type": "dirichlet", "prim": [inflow]}
        c["bcR"] = {"type": "dirichlet", "prim": [inflow]}
    P = sim.problem1d(c)
    u = P.field.data[0].copy()
    if md["name"] == "burgers" and np.all(u == 0):
        raise Skip("burgers data identically zero (dt = inf)")
    solver = cases.build_integrator(case["integ"], P.mesh, P.disc)
    f = P.field.copy()
    n = P.n
    scale = float(np.max(np.abs(u))) + 1e-300
    tol = 1e-13 * n * scale
    per = case["periodic"]
    worst_over, worst_tv = -1.0, -1.0
    lo0, hi0, tv0 = float(np.min(u)), float(np.max(u)), tv(u, per)
    if not per:
        # the boundary value takes part in the range and in the variation
        lo0, hi0 = min(lo0, inflow), max(hi0, inflow)
    for k in range(case["nsteps"]):
        prev = f.data[0].copy()
        if md["name"] == "burgers" and np.all(prev == 0):
            break
        sim.advance(solver, P.disc, f, case["cfl"])
        new = f.data[0]
        require(np.all(np.isfinite(new)), "finite", "step %d produced a non-finite value" % (k + 1))
        lo, hi = float(np.min(prev)), float(np.max(prev))
        if not per:
            lo, hi = min(lo, inflow), max(hi, inflow)
        over = max(float(np.max(new)) - hi, lo - float(np.min(new)))
        require(over <= tol, "maximum-principle", "step %d: solution leaves the range of the previous step by %.3g (range [%r,%r], new [%r,%r], %s, %s, cfl=%g)"
                % (k + 1, over, lo, hi, float(np.min(new)), float(np.max(new)), case["num"].get("limiter", case["num"]["name"]), case["integ"], case["cfl"]))
        if per:
            dtv = tv(new, True) - tv(prev, True)
        else:
            a = md["a"]
            ext = (lambda v: np.concatenate([[inflow], v])) if a > 0 else (lambda v: np.concatenate([v, [inflow]]))
            dtv = tv(ext(new), False) - tv(ext(prev), False)
        require(dtv <= tol, "tvd", "step %d: total variation grows by %.3g (%s, %s, cfl=%g)" % (k + 1, dtv, case["num"].get("limiter", case["num"]["name"]), case["integ"], case["cfl"]))
        worst_over, worst_tv = max(worst_over, over / scale), max(worst_tv, dtv / scale)
    target(worst_over, "overshoot/scale")
    target(worst_tv, "tv-growth/scale")
    # the same history through solve(): final state inside the initial range
    solver2 = cases.build_integrator(case["integ"], P.mesh, P.disc)
    hist = sim.preuse_solver(P, solver2, case, case["cfl"])          # the solver object may have a past (see sim.preuse_solver)
    res = solver2.solve(P.field, case["cfl"], stop={"maxit": case["nsteps"]})
    # ... and with snapshots requested between the iterations (just after a step boundary, mid-step, just before the next): every state a user gets back obeys
    # the maximum principle and the TV bound with respect to the initial data
    dts = float(np.min(P.disc.calc_timestep(P.field, case["cfl"])))
    if np.isfinite(dts) and dts > 0 and case["nsteps"] >= 2:
        t0 = P.field.time
        tsave = [t0 + x * dts for x in (1.06, 1.5, 2.0 - 1e-9, 2.1) if x < case["nsteps"]]
        snaps = cases.build_integrator(case["integ"], P.mesh, P.disc).solve(P.field, case["cfl"], tsave, stop={"maxit": 50}) if tsave else []
        for sn in snaps:
            v = sn.data[0]
            if not np.all(np.isfinite(v)):
                continue
            require(float(np.max(v)) <= hi0 + tol * case["nsteps"] and float(np.min(v)) >= lo0 - tol * case["nsteps"], "maximum-principle-snapshot",
                    "snapshot at t0 + %.4g CFL steps leaves the range of the initial data: [%r, %r] vs [%r, %r] (%s, %s, cfl=%g)"
                    % ((sn.time - t0) / dts, float(np.min(v)), float(np.max(v)), lo0, hi0, case["integ"], case["num"].get("limiter", case["num"]["name"]), case["cfl"]))
            tvs = tv(v, per)
            if per:
                require(tvs <= tv0 + 4 * tol * case["nsteps"], "tvd-snapshot", "snapshot at t0 + %.4g CFL steps has total variation %r > initial %r (%s, %s, cfl=%g)"
                        % ((sn.time - t0) / dts, tvs, tv0, case["integ"], case["num"].get("limiter", case["num"]["name"]), case["cfl"]))
    fin = res[-1].data[0]
    if np.all(np.isfinite(fin)):
        require(float(np.max(fin)) <= hi0 + tol * case["nsteps"] and float(np.min(fin)) >= lo0 - tol * case["nsteps"], "maximum-principle-solve",
                "solve(maxit=%d) leaves the initial range [%r,%r]: [%r,%r]" % (case["nsteps"], lo0, hi0, float(np.min(fin)), float(np.max(fin))))
    labels = ["model:" + md["name"], "num:" + case["num"].get("limiter", case["num"]["name"]), "integ:" + case["integ"], "per" if per else "inflow",
              "mesh:" + case["mesh"]["kind"], "x0=0" if case["mesh"].get("x0", 0.0) == 0 else "x0!=0", "sign-change" if (np.min(u) < 0 < np.max(u)) else "one-sign"]
    if md["name"] == "burgers" and np.any(u[:-1] == -u[1:]) and np.any((u[:-1] > 0) & (u[:-1] == -u[1:])):
        labels.append("burgers-stationary-shock-pair")
    return dict(nontrivial=bool(np.max(u) > np.min(u)), labels=labels)


REQUIRED_LABELS = ['muscl_uniform/model:burgers', 'muscl_uniform/sign-change', 'muscl_uniform/num:superbee', 'muscl_uniform/num:vanleer', 'muscl_uniform/num:vanalbada', 'muscl_uniform/num:minmod', 'first_order_any_mesh/inflow']

SUBCHECKS = [
    SubCheck("first_order_any_mesh", check, strategy=sim.with_units(strat_first), examples={"quick": 600, "thorough": 2500}, shards={"quick": 4, "thorough": 16}),
    SubCheck("muscl_uniform", check, strategy=sim.with_units(strat_muscl), examples={"quick": 700, "thorough": 3000}, shards={"quick": 6, "thorough": 16}),
]

META = dict(
    level_text="Generated histories of 1..12 steps (manual stepping exactly as solve() does, plus the same run through solve()) for first-order upwind convection on any mesh "
               "(CFL<=1) and MUSCL with every limiter for convection/Burgers on uniform periodic meshes (CFL<=1/2) with the three SSP integrators; range and total variation "
               "are judged after every step. Exploration only.",
    level_note="trusted: numpy; tolerance 1e-13*n*max|u|; sizes <= 200 cells, <= 12 steps",
    technique="property-based testing (Hypothesis given): invariant (range, total variation) checked after every step of a generated history",
)
