"""C01 - discrete conservation of every conserved variable (1-D and 2-D).

Operator level: sum_i vol_i R_i = F_left - F_right + sum_i vol_i S_i for every equation, with vol_i recomputed from the face
coordinates (never mesh.vol(): the residual divides by mesh.dx(), a wrong volume would cancel).  Solve level: the volume
integrals after a solve equal the initial ones (periodic: all variables; walls: mass and energy / depth).
"""
import numpy as np
from hypothesis import strategies as st

from vf import cases, gen, sim
from vf.runner import Skip, SubCheck, require, target

RULE = ("operator: model in {convection(+/-a), burgers, shallowwater, euler1d, nozzle(constant section)} x mesh (uniform/refined/morphed/arbitrary faces, 2..40 cells) x every flux "
        "registered at run time x every reconstruction (unlimited ones on smooth data only) x boundaries {per, sym, open: dirichlet/outsup/inf} x optional linear sources; 2-D: "
        "nx,ny in 1..8, {centered, hlle} x {extrapol2d1, extrapol2dk(k)} x tags per/sym/dirichlet/outsup per side pair. solve: + every exported integrator x CFL x 1..20 steps "
        "(global time step). non-trivial = non-uniform data with a residual above 1e-6 of the natural scale; distinct = distinct canonical JSON")
ASSUMPTIONS = ["tolerance: operator 1e-12 * ncell * natural flux scale; solve: 1e-13 * steps * sum(vol*|q|) (explicit), 1e-6 relative (implicit: finite-difference Jacobian + LAPACK solve)",
               "implicit integrators are run at CFL<=2 on nonlinear models (a linearised step at CFL>>1 may leave the admissible set: counted as left_admissible_set, not judged) and up to CFL 100 on linear convection",
               "implicit integrators are not combined with euler2d: calc_jacobian indexes one scalar array per equation and does not support the vector momentum of the 2-D model (unsupported combination, outside the claim)",
               "runs whose face states leave the admissible set (unlimited/limited extrapolation of rough data on strongly non-uniform meshes) are skipped and counted"]


def _models():
    return st.one_of(gen.model_convection(), gen.model_burgers(), gen.model_shallowwater(), gen.model_euler1d(), gen.model_nozzle(varying=False))


def _bc(md):
    name = md["name"]
    per = st.just(("per", {"type": "per"}, {"type": "per"}))
    if name in ("convection", "burgers"):
        opn = st.builds(lambda a, b: ("open", {"type": "dirichlet", "prim": [a]}, {"type": "dirichlet", "prim": [b]}), gen.f(-2, 2), gen.f(-2, 2))
        return st.one_of(per, opn)
    sym = st.just(("sym", {"type": "sym"}, {"type": "sym"}))
    if name == "shallowwater":
        opn = st.builds(lambda h, u: ("open", {"type": "dirichlet", "prim": [h, u]}, {"type": "inf"}), gen.f(0.3, 3), gen.f(-1, 1))
        opn2 = st.just(("open", {"type": "inf"}, {"type": "sym"}))
        return st.one_of(per, sym, opn, opn2)
    opn = st.builds(lambda r, u, p: ("open", {"type": "dirichlet", "prim": [r, u, p]}, {"type": "outsup"}), gen.f(0.3, 3), gen.f(-1, 1), gen.f(0.3, 3))
    opn2 = st.builds(lambda p: ("open", {"type": "sym"}, {"type": "outsub", "p": p}), gen.f(0.3, 3))
    return st.one_of(per, sym, opn, opn2)


def _src(md):
    neq = cases.model_neq(md)
    if md["name"] not in ("euler1d", "shallowwater"):
        return st.none()
    coef = gen.sfloat(-2, 0)
    entry = st.one_of(st.none(), st.builds(lambda c0, cx, cq: dict(c0=c0, cx=cx, cq=cq), coef, coef, st.lists(coef, min_size=0, max_size=neq)))
    return st.one_of(st.none(), st.none(), st.lists(entry, min_size=neq, max_size=neq))


def _cfg1d(md, nmax):
    def build(me, rough, num_r, num_s, st_r, st_s, fl, bc, src):
        return dict(model=md, mesh=me, num=(num_r if rough else num_s), state=(st_r if rough else st_s), flux=fl, bckind=bc[0], bcL=bc[1], bcR=bc[2], source=src)
    fmd = md if md["name"] != "nozzle" else dict(name="euler1d")
    return st.builds(build, gen.mesh_any_or_big(2, nmax), st.booleans(), gen.num_robust(), gen.num_any(),
                     gen.state_for(md, True, lnrange=1.5, machmax=2.0), gen.state_for(md, False, lnrange=1.0, machmax=1.5, smooth_amp=0.05),
                     st.sampled_from(cases.flux_names(fmd)), _bc(md), _src(md))


def strat_op1d(tier):
    nmax = 24 if tier == "quick" else 40
    return _models().flatmap(lambda md: _cfg1d(md, nmax))


def _with_source(case):
    md = dict(case["model"])
    if case.get("source"):
        md["source"] = case["source"]
    return md


def check_op1d(case):
    md = _with_source(case)
    P = sim.problem1d(case, model_desc=md)
    r = [np.array(x, dtype=float) for x in P.disc.rhs(P.field)]
    if not all(np.all(np.isfinite(x)) for x in r):
        sim.nonfinite_operator(case["num"])
    neq = len(r)
    vol = P.dxf                                    # from the faces, not from mesh.vol()
    xc = 0.5 * (P.xf[1:] + P.xf[:-1])
    flux = [np.asarray(x, dtype=float) for x in P.disc.flux]
    # tolerance scale: natural flux scale of the data, widened by the largest face flux (boundary states may be larger than the data)
    scales = [max(float(np.max(s)), float(np.max(np.abs(fk)))) for s, fk in zip(sim.natural_scales(P.smd, P.prim), flux)]
    kind = case["bckind"]
    worst = 0.0
    for k in range(neq):
        total = float(np.sum(vol * r[k]))
        src = 0.0
        if case.get("source") and case["source"][k] is not None:
            S = cases.source_value(case["source"][k], xc, P.cons)
            src = float(np.sum(vol * S))
            sscale = float(np.sum(vol * np.abs(S)))
        else:
            sscale = 0.0
        tol = 1e-12 * P.n * scales[k] + 1e-12 * sscale + 1e-300
        if kind == "per":
            expect = src
        elif kind == "sym":
            if P.smd["name"] in ("euler1d",) and k == 1 or P.smd["name"] == "shallowwater" and k == 1:
                continue       # momentum is not conserved between walls (pressure force)
            expect = src
        else:
            require(flux[k].shape == (P.n + 1,), "flux-shape", "face flux array has shape %r" % (flux[k].shape,))
            expect = float(flux[k][0] - flux[k][-1]) + src
        err = abs(total - expect)
        require(err <= tol, "operator-conservation", "equation %d (%s, %s/%s, %s, %s mesh): sum vol*R = %r, boundary fluxes + sources give %r (defect %.3g, scale %.3g)"
                % (k, kind, md["name"], case["flux"], case["num"].get("limiter", case["num"]["name"]), case["mesh"]["kind"], total, expect, err, scales[k]))
        worst = max(worst, err / (P.n * scales[k] + sscale + 1e-300))
    # open boundaries with first-order reconstruction: the boundary fluxes themselves, recomputed from the BC state and the end cells
    if kind == "open" and case["num"]["name"] == "extrapol1":
        _check_boundary_flux(case, P, flux, scales)
    target(worst, "conservation-defect")
    nt = any(float(np.max(np.abs(r[k]))) > 1e-6 * scales[k] / float(np.max(vol)) for k in range(neq))
    return dict(nontrivial=bool(nt), labels=["model:" + md["name"], "flux:%s" % case["flux"], "num:" + case["num"].get("limiter", case["num"]["name"]), "bc:" + kind,
                                            "mesh:" + case["mesh"]["kind"], "src" if case.get("source") else "nosrc"])


def _bc_state(bc, inner, n):
    t = bc["type"]
    if t == "dirichlet":
        return [np.array([float(v)]) for v in bc["prim"]]
    if t in ("outsup", "inf"):
        return [np.array([float(v)]) for v in inner]
    if t == "sym":
        out = [np.array([float(v)]) for v in inner]
        out[1] = -out[1]
        return out
    if t == "outsub":
        return [np.array([float(inner[0])]), np.array([float(inner[1])]), np.array([float(bc["p"])])]
    return None


def _check_boundary_flux(case, P, flux, scales):
    first = [float(x[0]) for x in P.prim]
    last = [float(x[-1]) for x in P.prim]
    sL = _bc_state(case["bcL"], first, P.n)
    sR = _bc_state(case["bcR"], last, P.n)
    name = P.smd["name"]
    args = (case["flux"],) if name not in ("convection", "burgers") else (None,)
    if sL is not None:
        F = P.model.numflux(args[0], sL, [np.array([v]) for v in first])
        for k in range(len(F)):
            require(abs(float(np.asarray(F[k])[0]) - flux[k][0]) <= 1e-11 * scales[k] + 1e-300, "boundary-flux-left",
                    "equation %d: left boundary flux %r differs from numflux(BC state, first cell) = %r" % (k, float(flux[k][0]), float(np.asarray(F[k])[0])))
    if sR is not None:
        F = P.model.numflux(args[0], [np.array([v]) for v in last], sR)
        for k in range(len(F)):
            require(abs(float(np.asarray(F[k])[0]) - flux[k][-1]) <= 1e-11 * scales[k] + 1e-300, "boundary-flux-right",
                    "equation %d: right boundary flux %r differs from numflux(last cell, BC state) = %r" % (k, float(flux[k][-1]), float(np.asarray(F[k])[0])))


# ---------------------------------------------------------------- 2-D operator
def _bc2d_pair():
    per = st.just(("per", {"type": "per"}, {"type": "per"}))
    sym = st.just(("sym", {"type": "sym"}, {"type": "sym"}))
    opn = st.just(("open", {"type": "dirichlet", "prim": [1.2, [[0.3], [0.1]], 0.9]}, {"type": "outsup"}))
    opn2 = st.just(("open", {"type": "sym"}, {"type": "outsub", "p": 0.8}))
    return st.one_of(per, sym, opn, opn2)


def strat_op2d(tier):
    nmax = 6 if tier == "quick" else 10
    return st.builds(lambda md, me, num, fl, rough, s_r, s_s, bx, by: dict(model=md, mesh2d=me, num=(dict(name="extrapol2d1") if rough else num), flux=fl, state=(s_r if rough else s_s), bx=bx, by=by),
                     gen.model_euler2d(), gen.mesh2d(1, nmax), gen.num2d_any(), st.sampled_from(cases.flux_names(dict(name="euler2d"))), st.booleans(),
                     gen.state_euler2d(True, lnrange=1.5, machmax=2.0), gen.state_euler2d(False, lnrange=1.0, machmax=1.5, smooth_amp=0.05), _bc2d_pair(), _bc2d_pair())


def _fix_prim2d(bc):
    out = dict(bc)
    if out.get("type") == "dirichlet":
        p = out["prim"]
        out["prim"] = [p[0], np.array(p[1], dtype=float), p[2]]
    return out


def _case2d(case):
    c = dict(case)
    c["bc"] = {"left": _fix_prim2d(case["bx"][1]), "right": _fix_prim2d(case["bx"][2]), "bottom": _fix_prim2d(case["by"][1]), "top": _fix_prim2d(case["by"][2])}
    return c


def check_op2d(case):
    c = _case2d(case)
    P = sim.problem2d(c)
    r = P.disc.rhs(P.field)
    comps = [np.asarray(r[0], dtype=float), np.asarray(r[1][0], dtype=float), np.asarray(r[1][1], dtype=float), np.asarray(r[2], dtype=float)]
    if not all(np.all(np.isfinite(x)) for x in comps):
        sim.nonfinite_operator(case["num"])
    nx, ny, dx, dy = P.nx, P.ny, P.dx, P.dy
    fl = P.disc.flux
    fcomps = [np.asarray(fl[0], dtype=float), np.asarray(fl[1][0], dtype=float), np.asarray(fl[1][1], dtype=float), np.asarray(fl[2], dtype=float)]
    nxf = (nx + 1) * ny
    left = np.arange(ny) * (nx + 1)
    right = left + nx
    bottom = nxf + np.arange(nx)
    top = nxf + ny * nx + np.arange(nx)
    sc = sim.natural_scales(P.md, P.prim)
    scales = [float(np.max(sc[0])), float(np.max(sc[1])), float(np.max(sc[1])), float(np.max(sc[2]))]
    scales = [max(a, float(np.max(np.abs(b)))) for a, b in zip(scales, fcomps)]
    worst = 0.0
    kx, ky = case["bx"][0], case["by"][0]
    for k in range(4):
        total = float(np.sum(comps[k])) * dx * dy
        tol = 1e-12 * (nx * ny + 4) * scales[k] * max(dx, dy)
        bx = float(np.sum(fcomps[k][left]) - np.sum(fcomps[k][right])) * dy
        by = float(np.sum(fcomps[k][bottom]) - np.sum(fcomps[k][top])) * dx
        # walls: no mass / energy flux; periodic: left and right fluxes cancel
        if kx == "per":
            require(abs(bx) <= tol, "periodic-flux-x", "equation %d: fluxes through the periodic left/right faces do not cancel (%r)" % (k, bx))
        if ky == "per":
            require(abs(by) <= tol, "periodic-flux-y", "equation %d: fluxes through the periodic bottom/top faces do not cancel (%r)" % (k, by))
        if k in (0, 3):
            if kx == "sym":
                require(abs(bx) <= tol, "wall-flux-x", "equation %d: mass/energy flux through the left/right walls (%r)" % (k, bx))
            if ky == "sym":
                require(abs(by) <= tol, "wall-flux-y", "equation %d: mass/energy flux through the bottom/top walls (%r)" % (k, by))
        err = abs(total - (bx + by))
        require(err <= tol, "operator-conservation-2d", "equation %d (%s/%s, x:%s y:%s, %dx%d): sum vol*R = %r, boundary fluxes give %r (defect %.3g)"
                % (k, case["flux"], case["num"]["name"], kx, ky, nx, ny, total, bx + by, err))
        worst = max(worst, err / (tol / 1e-12 + 1e-300))
    target(worst, "conservation-defect-2d")
    nt = any(float(np.max(np.abs(comps[k]))) > 1e-6 * scales[k] / max(dx, dy) for k in range(4))
    return dict(nontrivial=bool(nt), labels=["flux:" + case["flux"], "num:" + case["num"]["name"], "x:" + kx, "y:" + ky, "nx=ny" if nx == ny else "nx!=ny", "min:%d" % min(nx, ny, 3)])


# ---------------------------------------------------------------- solve level
def strat_solve1d(tier):
    nmax = 12 if tier == "quick" else 30
    ex, im = cases.integrator_names()

    def cfg(md):
        lin = md["name"] == "convection"
        fmd = md if md["name"] != "nozzle" else dict(name="euler1d")
        bcs = [("per", {"type": "per"}, {"type": "per"})]
        if md["name"] in ("shallowwater", "euler1d", "nozzle"):
            bcs.append(("sym", {"type": "sym"}, {"type": "sym"}))
        explicit = st.builds(lambda i, c: (i, c), st.sampled_from(ex), gen.f(0.05, 0.9))
        implicit = st.builds(lambda i, c: (i, c), st.sampled_from(im), gen.logf(-2, 2) if lin else gen.f(0.05, 2.0))
        return st.builds(lambda me, rough, num_r, num_s, s_r, s_s, fl, bc, ic, ns: dict(model=md, mesh=me, num=(num_r if rough else num_s), state=(s_r if rough else s_s), flux=fl,
                                                                                         bckind=bc[0], bcL=bc[1], bcR=bc[2], integ=ic[0], cfl=ic[1], nsteps=ns),
                         gen.mesh_any(2, nmax), st.booleans(), gen.num_robust(), gen.num_any(), gen.state_for(md, True, lnrange=1.0, machmax=1.5),
                         gen.state_for(md, False, lnrange=0.7, machmax=1.2, smooth_amp=0.05), st.sampled_from(cases.flux_names(fmd)), st.sampled_from(bcs),
                         st.one_of(explicit, explicit, implicit), st.integers(1, 8 if tier == "quick" else 20))
    return _models().flatmap(cfg)


def _integrals(vol, data):
    out = []
    for d in data:
        d = np.asarray(d, dtype=float)
        if d.ndim == 2:
            out.extend([float(np.sum(vol * d[0])), float(np.sum(vol * d[1]))])
        else:
            out.append(float(np.sum(vol * d)))
    return out


def _abs_integrals(vol, data):
    out = []
    for d in data:
        d = np.asarray(d, dtype=float)
        if d.ndim == 2:
            m = float(np.sum(vol * np.sqrt(d[0] ** 2 + d[1] ** 2)))
            out.extend([m, m])
        else:
            out.append(float(np.sum(vol * np.abs(d))))
    return out


def _with_prior(strat_fn):
    return lambda tier: st.builds(lambda c, p: dict(c, prior=p), strat_fn(tier), st.sampled_from([False, False, True]))


def check_solve1d(case):
    md = case["model"]
    if cases.is_implicit(case["integ"]) and case.get("units"):
        # "to linear-solver accuracy": LU with partial pivoting is not invariant under a rescaling of the unknowns; with momentum and energy 1e-6 / 1e-12 times
        # the density the solve itself loses 1e-6 relative accuracy on the small components.  Implicit runs keep the density unit only.
        case = dict(case, units=[case["units"][0], 0])
    P = sim.problem1d(case)
    if md["name"] == "burgers" and np.all(P.prim[0] == 0):
        raise Skip("burgers data identically zero")
    r0 = P.disc.rhs(P.field)
    if not all(np.all(np.isfinite(x)) for x in r0):
        sim.nonfinite_operator(case["num"])
    implicit = cases.is_implicit(case["integ"])
    import flowdyn.integration as integ_mod
    cls = getattr(integ_mod, case["integ"])
    entered = []

    class Rec(cls):          # records the state every step starts from: a run whose INTERMEDIATE states leave the admissible set is not judged
        def step(self, f, dtloc):
            entered.append(sim.admissible(P.smd, f.data))
            return cls.step(self, f, dtloc)
    solver = Rec(P.mesh, P.disc)
    # the solver object may already have served another computation (see sim.preuse_solver; with 'prior': one iteration with the per-cell time-step directive,
    # which is NOT conservative and is not judged); the judged run below asks for one global time step
    hist = sim.preuse_solver(P, solver, case, case["cfl"], variant=(1 if case.get("prior") else None))
    del entered[:]
    vol = P.dxf
    I0 = _integrals(vol, P.field.data)
    A0 = _abs_integrals(vol, P.field.data)
    try:
        res = solver.solve(P.field, case["cfl"], stop={"maxit": case["nsteps"]})
    except np.linalg.LinAlgError:
        # a linearised implicit step that left the admissible set makes the next Jacobian non-finite; LAPACK then reports a singular matrix
        jac = getattr(solver, "jacobian", None)
        cur = getattr(solver, "Qn", None)       # state the failing step started from
        if (jac is not None and not np.all(np.isfinite(jac))) or (cur is not None and not sim.admissible(P.smd, cur.data)):
            raise Skip("left_admissible_set (implicit step from a state with negative pressure/density)")
        raise
    fin = res[-1]
    if not all(entered) and sim.admissible(P.smd, fin.data):
        raise Skip("left_admissible_set (an intermediate state had negative density/pressure/depth)")
    if not sim.admissible(P.smd, fin.data):
        if implicit or not (cases.num_is_first_order(case["num"]) or cases.num_is_limited(case["num"])):
            raise Skip("left_admissible_set")
        if P.smd["name"] in ("euler1d", "shallowwater") and case["flux"] in ("centered", "centeredflux", "centeredmassflow"):
            raise Skip("left_admissible_set (centred flux)")
        if case["cfl"] > 0.5 or case["mesh"]["kind"] != "uni":
            raise Skip("left_admissible_set")
    if not all(np.all(np.isfinite(d)) for d in fin.data):
        raise Skip("left_admissible_set (non-finite)")
    I1 = _integrals(vol, fin.data)
    A1 = _abs_integrals(vol, fin.data)
    if any(a1 > 100 * max(a0, _momentum_floor(P, vol, k)) for k, (a0, a1) in enumerate(zip(A0, A1))):
        raise Skip("unstable run (solution grows by more than 100x): round-off is measured against the initial integrals")
    name = P.smd["name"]
    worst = 0.0
    jnoise = 0.0
    if implicit:
        # the finite-difference Jacobian perturbs variable k by 1e-6 x mean|q_k|: for a variable that is tiny but not identically zero (a gas almost at rest)
        # the step sinks towards the round-off of the operator and the column sums of vol*J (zero for a conservative operator) carry noise ~ ulp/(1e-6 rel),
        # rel = mean|q_k| / natural scale.  Allowance 2 ulp/(1e-6 rel); below rel = 1e-4 the linearisation is mostly noise and the run is not judged.
        rels = []
        for k in range(len(I0)):
            mk = A0[k] / float(np.sum(vol))
            sk = max(mk, _momentum_floor(P, vol, k) / float(np.sum(vol)))
            if mk > 0 and sk > 0:
                rels.append(mk / sk)
        rel = min(rels) if rels else 1.0
        if rel < 1e-4:
            raise Skip("implicit step with a nearly (not identically) zero variable: the finite-difference Jacobian step is below the round-off resolution of the operator")
        jnoise = 4.4e-10 / rel
    for k in range(len(I0)):
        if case["bckind"] == "sym" and k == 1:
            continue
        # the scale of momentum includes the acoustic momentum rho*c so that a gas at rest has a non-zero scale; the column sums of the finite-difference
        # Jacobian vanish only to round-off/step (~1e-10), which an implicit step multiplies by dt: the implicit tolerance grows with the CFL number
        tol = ((1e-6 + jnoise) * max(1.0, case["cfl"]) if implicit else 1e-13 * case["nsteps"] * max(P.n, 10)) * max(A0[k], A1[k], _momentum_floor(P, vol, k))
        err = abs(I1[k] - I0[k])
        require(err <= tol, "solve-conservation", "variable %d: integral changes by %.3g over %d steps (%s, cfl=%g, %s/%s/%s, bc %s, %s mesh; initial %r, tol %.3g)"
                % (k, err, case["nsteps"], case["integ"], case["cfl"], md["name"], case["flux"], case["num"].get("limiter", case["num"]["name"]), case["bckind"], case["mesh"]["kind"], I0[k], tol))
        worst = max(worst, err / (tol / (1e-6 if implicit else 1e-13) + 1e-300))
    target(worst, "implicit-drift" if implicit else "explicit-drift")
    moved = any(float(np.max(np.abs(a - b))) > 0 for a, b in zip(fin.data, P.field.data))
    return dict(nontrivial=bool(moved), labels=["model:" + md["name"], "integ:" + case["integ"], "bc:" + case["bckind"], "mesh:" + case["mesh"]["kind"], "implicit" if implicit else "explicit",
                                                "cfl:" + ("<=1" if case["cfl"] <= 1 else "<=10" if case["cfl"] <= 10 else ">10"), "solver-history:%d" % hist])


def _momentum_floor(P, vol, k):
    name = P.smd["name"]
    if name == "shallowwater" and k == 1:
        return float(np.sum(vol * P.prim[0] * np.sqrt(P.smd.get("g", 9.81) * P.prim[0])))
    if name in ("euler1d", "euler2d") and k in ((1,) if name == "euler1d" else (1, 2)):
        return float(np.sum(vol * P.prim[0] * np.sqrt(P.smd.get("gamma", 1.4) * P.prim[2] / P.prim[0])))
    return 0.0


def strat_solve2d(tier):
    nmax = 4 if tier == "quick" else 8
    ex, im = cases.integrator_names()
    pair = st.sampled_from([("per", {"type": "per"}, {"type": "per"}), ("sym", {"type": "sym"}, {"type": "sym"})])
    return st.builds(lambda md, me, num, fl, s, bx, by, integ, cfl, ns: dict(model=md, mesh2d=me, num=num, flux=fl, state=s, bx=bx, by=by, integ=integ, cfl=cfl, nsteps=ns),
                     gen.model_euler2d(), gen.mesh2d(1, nmax), gen.num2d_any(), st.sampled_from(cases.flux_names(dict(name="euler2d"))),
                     gen.state_euler2d(False, lnrange=0.7, machmax=1.2, smooth_amp=0.05), pair, pair, st.sampled_from(ex), gen.f(0.05, 0.6), st.integers(1, 6 if tier == "quick" else 12))


def check_solve2d(case):
    c = _case2d(case)
    P = sim.problem2d(c)
    solver = cases.build_integrator(case["integ"], P.mesh, P.disc)
    vol = np.full(P.n, P.dx * P.dy)
    I0 = _integrals(vol, P.field.data)
    A0 = _abs_integrals(vol, P.field.data)
    res = solver.solve(P.field, case["cfl"], stop={"maxit": case["nsteps"]})
    fin = res[-1]
    if not all(np.all(np.isfinite(d)) for d in fin.data):
        raise Skip("left_admissible_set (non-finite)")
    I1 = _integrals(vol, fin.data)
    A1 = _abs_integrals(vol, fin.data)
    if any(a1 > 100 * max(a0, _momentum_floor(P, vol, k)) for k, (a0, a1) in enumerate(zip(A0, A1))):
        raise Skip("unstable run (solution grows by more than 100x): round-off is measured against the initial integrals")
    worst = 0.0
    for k in range(4):
        if (k == 1 and case["bx"][0] == "sym") or (k == 2 and case["by"][0] == "sym"):
            continue
        tol = 1e-13 * case["nsteps"] * max(P.n, 10) * max(A0[k], A1[k], _momentum_floor(P, vol, k))
        err = abs(I1[k] - I0[k])
        require(err <= tol, "solve-conservation-2d", "variable %d: integral changes by %.3g over %d steps (%s, cfl=%g, %s/%s, x:%s y:%s, %dx%d)"
                % (k, err, case["nsteps"], case["integ"], case["cfl"], case["flux"], case["num"]["name"], case["bx"][0], case["by"][0], P.nx, P.ny))
        worst = max(worst, err / (tol / 1e-13 + 1e-300))
    target(worst, "explicit-drift-2d")
    moved = any(float(np.max(np.abs(np.asarray(a) - np.asarray(b)))) > 0 for a, b in zip(fin.data, P.field.data))
    return dict(nontrivial=bool(moved), labels=["integ:" + case["integ"], "x:" + case["bx"][0], "y:" + case["by"][0], "flux:" + case["flux"], "num:" + case["num"]["name"]])


SUBCHECKS = [
    SubCheck("operator1d", check_op1d, strategy=sim.with_units(strat_op1d), examples={"quick": 400, "thorough": 2500}, shards={"quick": 4, "thorough": 16}),
    SubCheck("operator2d", check_op2d, strategy=sim.with_units(strat_op2d), examples={"quick": 250, "thorough": 1500}, shards={"quick": 3, "thorough": 12}),
    SubCheck("solve1d", check_solve1d, strategy=_with_prior(sim.with_units(strat_solve1d)), examples={"quick": 200, "thorough": 1200}, shards={"quick": 6, "thorough": 16}),
    SubCheck("solve2d", check_solve2d, strategy=sim.with_units(strat_solve2d), examples={"quick": 120, "thorough": 800}, shards={"quick": 3, "thorough": 12}),
]

META = dict(
    level_text="Generated search over models, meshes (non-uniform included), every registered flux and reconstruction, boundary kinds and sources: the volume-weighted sum of one "
               "operator evaluation is compared with boundary fluxes + sources using volumes recomputed from the faces; the boundary fluxes of first-order open cases are "
               "recomputed from the BC state; complete solves with every integrator (explicit and implicit, CFL up to 100 on the linear model) must keep the integrals. Exploration only.",
    level_note="trusted: numpy; volumes from face coordinates; tolerances 1e-12*n*scale (operator), 1e-13*steps*n (explicit), 1e-6 (implicit)",
    technique="property-based testing (Hypothesis given): conservation invariant of the operator and of complete solves against independently computed volumes and boundary fluxes",
)
