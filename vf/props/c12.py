"""C12 - slope limiters lie in the second-order TVD region (flowdyn.xnum.minmod/vanalbada/vanleer/superbee).

Domain (from the property): finite pairs (a,b), |a|,|b| in {0} U [1e-150,1e150], ratios 1e-12..1e12,
every sign combination, exact zeros, equal and opposite arguments; scalars and arrays.
Oracle: the TVD-region predicates themselves, recomputed from the arguments.
"""
import numpy as np
from hypothesis import strategies as st

from vf import cases
from vf.runner import SubCheck, Violation, require, target

LIMITERS = ["minmod", "vanalbada", "vanleer", "superbee"]
EPS = np.finfo(float).eps
LO, HI = 1e-150, 1e150

RULE = ("cases = (limiter, list of 1..32 slope pairs, scale factor); pairs built by construction from sign x "
        "10^[-150,150] magnitudes x 10^[-12,12] ratios plus a pool of exact zeros, equal, opposite and power-of-two "
        "arguments; a case is non-trivial when it holds at least one same-sign pair with both slopes non-zero; "
        "distinct = distinct canonical JSON of the case")
ASSUMPTIONS = ["IEEE-754 double arithmetic of numpy", "tolerances: 4 ulp on the TVD bounds; 1e-20/min(a,b)^2 + 16 ulp relative on homogeneity/identity (the regularisation the property names)"]


def _lim(name):
    import flowdyn.xnum as xnum
    return getattr(xnum, name)


# ---------------------------------------------------------------- generators
def _mag():
    mant = st.one_of(st.just(1.0), st.floats(1.0, 10.0, exclude_max=True), st.sampled_from([2.0, 4.0, 8.0, 1.5, 9.999999999999998]))
    expo = st.one_of(st.integers(-150, 149), st.integers(-12, 12), st.sampled_from([-150, -100, -21, -20, -10, -8, 0, 8, 100, 102, 103, 149]))
    return st.builds(lambda m, e: min(max(float(m * 10.0 ** e), LO), HI), mant, expo)


def _pow2():
    return st.builds(lambda k: float(2.0 ** k), st.integers(-498, 498))


def _pair():
    sign = st.sampled_from([1.0, -1.0])
    ratio = st.one_of(
        st.builds(lambda e, m: float(m * 10.0 ** e), st.floats(-12, 12), st.floats(1.0, 10.0)),
        st.sampled_from([1.0, 2.0, 0.5, 3.0, 1.0 / 3.0, 1.0 + 2 ** -52, 1.0 - 2 ** -53, 2.0 + 2 ** -51, 1e12, 1e-12]))

    def mk(a, sa, sb, r):
        b = min(max(a * r, LO), HI)
        return [sa * a, sb * b]
    general = st.builds(mk, st.one_of(_mag(), _pow2()), sign, sign, ratio)
    special = st.one_of(
        st.builds(lambda a, s: [s * a, s * a], _mag(), sign),            # equal
        st.builds(lambda a, s: [s * a, -s * a], _mag(), sign),           # opposite
        st.builds(lambda a, s: [s * a, 0.0], _mag(), sign),              # one vanishes
        st.builds(lambda a, s: [0.0, s * a], _mag(), sign),
        st.just([0.0, 0.0]),
        st.builds(lambda a, s: [s * a, -0.0], _mag(), sign),
        st.builds(lambda a, b, s: [s * a, s * b], _pow2(), _pow2(), sign),  # powers of two (no clipping: within 2^+-498)
    )
    return st.one_of(general, general, special)


def _clip_pairs(pairs):
    out = []
    for a, b in pairs:
        # keep ratios within 1e-12..1e12 when both non zero (domain of the property)
        if a != 0 and b != 0:
            r = abs(b / a)
            if r > 1e12:
                b = np.sign(b) * abs(a) * 1e12
            elif r < 1e-12:
                b = np.sign(b) * abs(a) * 1e-12
            b = float(np.sign(b) * min(max(abs(b), LO), HI))
        out.append([float(a), float(b)])
    return out


def strat(tier):
    nmax = 16 if tier == "quick" else 32
    lam = st.one_of(st.builds(lambda k: float(2.0 ** k), st.integers(-40, 40)),
                    st.builds(lambda e: float(10.0 ** e), st.floats(-6, 6)),
                    st.sampled_from([3.0, 0.1, 7.0, 1e-3]))
    return st.builds(lambda l, p, lm: dict(limiter=l, pairs=_clip_pairs(p), lam=lm),
                     st.sampled_from(LIMITERS), st.lists(_pair(), min_size=1, max_size=nmax), lam)


# ---------------------------------------------------------------- predicate
def _muscl_was_used(limname):
    """the limiters are plain functions of two slopes: they answer the same whether or not a MUSCL reconstruction (with any limiter) has just worked on steep data"""
    md = dict(name="convection", a=1.0)
    model = cases.build_model(md)
    mesh = cases.build_mesh(dict(kind="uni", n=40, length=1.0, x0=0.0))
    for ln in (limname, "minmod"):
        disc = cases.build_disc(model, mesh, dict(name="muscl", limiter=ln), None, {"type": "per"}, {"type": "per"})
        disc.rhs(cases.build_field(model, mesh, [np.where(np.arange(40) < 20, 700.0, -300.0)]))


def check(case):
    lim = _lim(case["limiter"])
    _muscl_was_used(case["limiter"])
    A = np.array([p[0] for p in case["pairs"]], dtype=float)
    B = np.array([p[1] for p in case["pairs"]], dtype=float)
    lam = float(case["lam"])
    A0, B0 = A.copy(), B.copy()
    r = np.array(lim(A, B), dtype=float, copy=True)
    require(r.shape == A.shape, "array-shape", "result shape %s for input shape %s" % (r.shape, A.shape))
    # a function of its arguments: they are left untouched, a second call gives the same bits, and so do strided views and a 2-row array of the same numbers
    require(np.array_equal(A, A0) and np.array_equal(B, B0), "arguments-unchanged", "%s modified its argument arrays" % case["limiter"])
    r2 = np.asarray(lim(A, B), dtype=float)
    require(np.array_equal(r2, r), "repeatable", "%s: a second call on the same arrays gives %r, the first gave %r" % (case["limiter"], r2.tolist(), r.tolist()))
    bigA, bigB = np.full(2 * len(A) + 1, 7.5), np.full(3 * len(A), -0.3)
    bigA[1::2] = A
    bigB[::3] = B
    rv = np.asarray(lim(bigA[1::2], bigB[::3]), dtype=float)
    require(rv.shape == A.shape and np.array_equal(rv, r), "elementwise-views", "%s on strided views of the same numbers gives %r instead of %r" % (case["limiter"], rv.tolist(), r.tolist()))
    # memory layout is not part of the value: column-major (Fortran-order) arrays and transposed views of the same 2-D tables give the same table
    tabA, tabB = np.vstack([A, A[::-1], 0.5 * A]), np.vstack([B, 2.0 * B[::-1], B])
    rtab = np.asarray(lim(tabA, tabB), dtype=float)
    rF = np.asarray(lim(np.asfortranarray(tabA), np.asfortranarray(tabB)), dtype=float)
    rT = np.asarray(lim(np.ascontiguousarray(tabA.T).T, tabB), dtype=float)
    rTT = np.asarray(lim(tabA.T, tabB.T), dtype=float)
    require(rF.shape == rtab.shape and np.array_equal(rF, rtab) and np.array_equal(rT, rtab) and rTT.shape == rtab.T.shape and np.array_equal(rTT, rtab.T), "elementwise-memory-order",
            "%s on column-major / transposed 2-D arrays differs from the same table in row-major order" % case["limiter"])
    require(np.array_equal(rtab[0], r), "elementwise-2d", "%s: first row of a 3-row table differs from the 1-D result" % case["limiter"])
    r2d = np.asarray(lim(np.vstack([A, A]), np.vstack([B, B])), dtype=float)
    require(r2d.shape == (2, len(A)) and np.array_equal(r2d[0], r) and np.array_equal(r2d[1], r), "elementwise-2d", "%s on a 2-row array of the same pairs gives %r instead of two rows %r"
            % (case["limiter"], r2d.tolist(), r.tolist()))
    labels = set()
    nontrivial = False
    worst = 0.0
    for i, (a, b) in enumerate(zip(A, B)):
        ri = r[i]
        require(np.isfinite(ri), "finite", "%s(%r,%r) = %r is not finite" % (case["limiter"], a, b, ri))
        # element-wise: the same pair alone in an array gives the same bits; a numpy *scalar* call may differ by an ulp because x**2 on a
        # scalar goes through libm pow() (not correctly rounded) while arrays use a multiplication
        s1 = np.asarray(lim(np.array([a]), np.array([b])), dtype=float)
        require(s1.shape == (1,) and float(s1[0]) == ri, "elementwise",
                "%s on the single pair (%r,%r) gives %r but %r as element %d of an array" % (case["limiter"], float(a), float(b), float(s1[0]), float(ri), i))
        si = np.asarray(lim(np.float64(a), np.float64(b)), dtype=float)
        require(si.shape == () and abs(float(si) - ri) <= 4 * EPS * abs(ri), "elementwise-scalar",
                "scalar %s(%r,%r)=%r differs from the array element %r" % (case["limiter"], float(a), float(b), float(si), float(ri)))
        if a == 0 or b == 0 or (a > 0) != (b > 0):
            require(ri == 0, "zero-when-opposite-or-vanishing", "%s(%r,%r) = %r, expected 0" % (case["limiter"], a, b, ri))
            labels.add("opposite-or-zero")
            continue
        nontrivial = True
        mn, mx = min(abs(a), abs(b)), max(abs(a), abs(b))
        labels.add("mag:" + _decade(mn))
        labels.add("ratio:1e%+03d" % int(round(np.log10(mx / mn))))
        labels.add("sign:" + ("+" if a > 0 else "-"))
        if ri != 0:
            require((ri > 0) == (a > 0), "common-sign", "%s(%r,%r) = %r has the wrong sign" % (case["limiter"], a, b, ri))
        else:
            labels.add("zero-on-same-sign")
        require(abs(ri) <= 2 * mn * (1 + 4 * EPS), "le-twice-smaller", "|%s(%r,%r)| = %r > 2*min = %r" % (case["limiter"], a, b, abs(ri), 2 * mn))
        require(abs(ri) <= mx * (1 + 4 * EPS), "le-larger", "|%s(%r,%r)| = %r > max = %r" % (case["limiter"], a, b, abs(ri), mx))
        worst = max(worst, abs(ri) / (2 * mn), abs(ri) / mx)
        if mn >= 1e-8:
            # identity on equal arguments
            reg = 1e-20 / mn ** 2 + 16 * EPS
            raa = float(np.asarray(lim(np.float64(a), np.float64(a))))
            require(abs(raa - a) <= reg * abs(a), "identity-on-equal", "%s(a,a) = %r for a = %r" % (case["limiter"], raa, a))
            la, lb = lam * a, lam * b
            if 1e-8 <= min(abs(la), abs(lb)) and max(abs(la), abs(lb)) <= HI:
                rl = float(np.asarray(lim(np.float64(la), np.float64(lb))))
                tol = (1e-20 / min(mn, abs(la), abs(lb)) ** 2 + 16 * EPS) * abs(lam * ri)
                require(abs(rl - lam * ri) <= tol, "homogeneous",
                        "%s(l*a,l*b) = %r but l*%s(a,b) = %r (a=%r b=%r l=%r)" % (case["limiter"], rl, case["limiter"], lam * ri, a, b, lam))
                labels.add("homogeneity-tested")
    # symmetry and oddness, on the whole array, exact
    rs = np.asarray(lim(B, A), dtype=float)
    require(np.array_equal(rs, r), "symmetric", "%s(b,a) != %s(a,b): %r vs %r for a=%r b=%r" % (case["limiter"], case["limiter"], rs.tolist(), r.tolist(), A.tolist(), B.tolist()))
    ro = np.asarray(lim(-A, -B), dtype=float)
    require(np.array_equal(ro, -r), "odd", "%s(-a,-b) != -%s(a,b): %r vs %r for a=%r b=%r" % (case["limiter"], case["limiter"], ro.tolist(), (-r).tolist(), A.tolist(), B.tolist()))
    target(worst, "tvd-margin")
    labels.add("limiter:" + case["limiter"])
    labels.add("n:%d" % (1 if len(A) == 1 else (2 if len(A) < 8 else 8)))
    return dict(nontrivial=nontrivial, labels=sorted(labels))


def _decade(x):
    e = np.log10(x)
    if e < -100:
        return "<1e-100"
    if e < -8:
        return "1e-100..1e-8"
    if e <= 8:
        return "1e-8..1e8"
    if e <= 100:
        return "1e8..1e100"
    return ">1e100"


REQUIRED_LABELS = ['tvd_region/opposite-or-zero', 'tvd_region/mag:<1e-100', 'tvd_region/mag:>1e100', 'tvd_region/ratio:1e+12', 'tvd_region/ratio:1e+00', 'tvd_region/homogeneity-tested', 'tvd_region/sign:-']

SUBCHECKS = [
    SubCheck("tvd_region", check, strategy=strat, examples={"quick": 1500, "thorough": 12000},
             shards={"quick": 4, "thorough": 16}),
]

META = dict(
    level_text="Generated search over the whole stated float domain (signs x 300 decades x 24 decades of ratio x special values), "
               "each of the four limiters judged against the TVD-region inequalities, symmetry, oddness, elementwise and homogeneity "
               "predicates recomputed from the arguments; exploration, not proof: a violation confined to a float pattern outside the pools is missed.",
    level_note="trusted: numpy float64 semantics; tolerances of 4 ulp (bounds) and 1e-20/min^2+16 ulp (homogeneity) as stated in the property",
    technique="property-based testing (Hypothesis given) with algebraic/validity predicates as oracle",
)
