"""C18 - the time step is CFL x cell size / fastest wave speed.

Oracle: (a) analytic spectral radius |a|, |u|, |u|+sqrt(gh), |u|+c from the primitive state; (b) spectral radius of the
central-difference Jacobian of the model's own consistent flux F(W,W) in conservative variables (numpy eigvals);
(c) a recording subclass of the integrator observes the dt handed to every step of a solve.
"""
import math

import numpy as np
from hypothesis import strategies as st

from vf import cases, gen
from vf.runner import Skip, SubCheck, require, target

RULE = ("cases = model x mesh (uniform / refined / morphed / arbitrary faces, 1..30 cells; 2-D nx,ny 1..6 with lx!=ly) x rough admissible state x CFL 10^[-2,2]; "
        "solve part: + integrator (every exported class) x dtlocal on/off x 1..4 steps. non-trivial = per-cell time steps not all equal (non-uniform state or mesh); "
        "distinct = distinct canonical JSON")
ASSUMPTIONS = ["analytic spectral radius compared to 1e-12; flux-Jacobian spectral radius (central differences, step 1e-6 x natural scale) compared to 2e-5",
               "Burgers cells with u = 0 have dt = +inf (CFL*dx/0), accepted as the formula's value"]


def _models():
    return st.one_of(gen.model_convection(), gen.model_burgers(), gen.model_shallowwater(), gen.model_euler1d(), gen.model_nozzle())


def _units():
    """density and velocity units (powers of ten): the state is expressed in them (Euler: rho*a, u*b, p*a*b^2; shallow water: h*b^2, u*b; Burgers: u*b)"""
    return st.one_of(st.none(), st.none(), st.tuples(st.integers(-6, 6), st.integers(-8, 4)).map(list))


def _apply_units(md, prim, units):
    if not units or md["name"] == "convection":
        return prim
    a, b = 10.0 ** units[0], 10.0 ** units[1]
    name = md["name"]
    if name == "burgers":
        return [prim[0] * b]
    if name == "shallowwater":
        return [prim[0] * b * b, prim[1] * b]
    return [prim[0] * a, prim[1] * b, prim[2] * a * b * b]


def strat1d(tier):
    nmax = 20 if tier == "quick" else 60
    return _models().flatmap(lambda md: st.builds(
        lambda me, s, cfl, j, dlt, un: dict(model=md, mesh=me, state=s, cfl=cfl, other=j, delta=dlt, units=un),
        gen.mesh_any(1 if md["name"] != "refined" else 2, nmax), gen.state_for(md, True), gen.logf(-2, 2), st.integers(0, 1000), gen.f(0.1, 0.9), _units()))


def strat2d(tier):
    nmax = 5 if tier == "quick" else 10
    return st.builds(lambda md, me, s, cfl, j, dlt, un: dict(model=md, mesh2d=me, state=s, cfl=cfl, other=j, delta=dlt, units=un),
                     gen.model_euler2d(), gen.mesh2d(1, nmax), gen.state_euler2d(True), gen.logf(-2, 2), st.integers(0, 1000), gen.f(0.1, 0.9), _units())


def _setup(case):
    md = case["model"]
    model = cases.build_model(md)
    if "mesh2d" in case:
        mesh = cases.build_mesh2d(case["mesh2d"])
        nx, ny = case["mesh2d"]["nx"], case["mesh2d"]["ny"]
        n = nx * ny
        sx = ((np.arange(n) % nx) + 0.5) / nx
        sy = ((np.arange(n) // nx) + 0.5) / ny
        prim = _apply_units(md, cases.prim_state(md, case["state"], sx, sy), case.get("units"))
        size = np.full(n, (case["mesh2d"]["lx"] / nx) * (case["mesh2d"]["ly"] / ny) / (case["mesh2d"]["lx"] / nx + case["mesh2d"]["ly"] / ny))
        disc = cases.build_disc2d(model, mesh, dict(name="extrapol2d1"), "hlle", {t: {"type": "per"} for t in mesh.list_of_bctags()})
    else:
        mesh = cases.build_mesh(case["mesh"])
        xf = np.asarray(mesh.xf, dtype=float)
        n = len(xf) - 1
        prim = _apply_units(md, cases.prim_state(md, case["state"], cases.norm_coord(xf)), case.get("units"))
        size = xf[1:] - xf[:-1]
        # boundaries: periodic, or (a deterministic third of the cases) Dirichlet states that are much faster than the field - the time step of a cell depends
        # on that cell only
        import zlib
        if md["name"] != "nozzle" and zlib.crc32(repr(sorted((k, repr(v)) for k, v in case.items())).encode()) % 3 == 0:
            fast = [float(np.max(np.abs(x))) for x in prim]
            if md["name"] in ("convection", "burgers"):
                bprim = [4.0 * fast[0] + 1.0]
            elif md["name"] == "shallowwater":
                bprim = [9.0 * fast[0], 4.0 * fast[1] + 3.0 * math.sqrt(md.get("g", 9.81) * fast[0])]
            else:
                bprim = [float(np.min(prim[0])), 4.0 * fast[1] + 3.0 * math.sqrt(md.get("gamma", 1.4) * fast[2] / float(np.min(prim[0]))), 9.0 * fast[2]]
            bc = {"type": "dirichlet", "prim": bprim}
            disc = cases.build_disc(model, mesh, dict(name="extrapol1"), None, dict(bc), dict(bc))
        else:
            disc = cases.build_disc(model, mesh, dict(name="extrapol1"), None, {"type": "per"}, {"type": "per"})
    return md, model, mesh, disc, prim, size, n


def analytic_radius(md, prim):
    name = md["name"]
    if name == "convection":
        return np.full(len(prim[0]), abs(md["a"]))
    if name == "burgers":
        return np.abs(prim[0])
    if name == "shallowwater":
        return np.abs(prim[1]) + np.sqrt(md.get("g", 9.81) * prim[0])
    g = md.get("gamma", 1.4)
    c = np.sqrt(g * prim[2] / prim[0])
    if name == "euler2d":
        return np.sqrt(prim[1][0] ** 2 + prim[1][1] ** 2) + c
    return np.abs(prim[1]) + c


def jacobian_radius(md, model, prim):
    """spectral radius of d F(W,W)/dQ by central differences, per cell"""
    name = md["name"]
    q = cases.cons_from_prim(md, prim)
    n = len(q[0])
    rad = analytic_radius(md, prim)
    if name in ("convection", "burgers"):
        comps = [q[0]]
        scales = [np.where(q[0] != 0, np.abs(q[0]), 1e-3)]       # relative to the local value: the Burgers flux switches branch at u = 0
    elif name == "shallowwater":
        comps = [q[0], q[1]]
        scales = [q[0], q[0] * rad]
    elif name == "euler2d":
        comps = [q[0], q[1][0], q[1][1], q[2]]
        scales = [q[0], q[0] * rad, q[0] * rad, q[0] * rad ** 2]
    else:
        comps = [q[0], q[1], q[2]]
        scales = [q[0], q[0] * rad, q[0] * rad ** 2]
    m = len(comps)
    if name == "euler2d":
        V = prim[1]
        mag = np.sqrt(V[0] ** 2 + V[1] ** 2)
        dirv = np.where(mag > 0, V / np.where(mag > 0, mag, 1.0), np.array([[1.0], [0.0]]) * np.ones((1, n)))

    def G(cs):
        if name in ("convection", "burgers"):
            p = model.cons2prim([cs[0].copy()])
            F = model.numflux(None, [np.array(x, dtype=float) for x in p], [np.array(x, dtype=float) for x in p])
            return [np.asarray(F[0], dtype=float)]
        if name == "shallowwater":
            p = model.cons2prim([cs[0].copy(), cs[1].copy()])
            F = model.numflux("centered", [np.array(x) for x in p], [np.array(x) for x in p])
            return [np.asarray(F[0], dtype=float), np.asarray(F[1], dtype=float)]
        if name == "euler2d":
            p = model.cons2prim([cs[0].copy(), np.vstack([cs[1], cs[2]]), cs[3].copy()])
            F = model.numflux("centered", [np.array(x) for x in p], [np.array(x) for x in p], dirv)
            return [np.asarray(F[0], dtype=float), np.asarray(F[1][0], dtype=float), np.asarray(F[1][1], dtype=float), np.asarray(F[2], dtype=float)]
        p = model.cons2prim([cs[0].copy(), cs[1].copy(), cs[2].copy()])
        F = model.numflux("centered", [np.array(x) for x in p], [np.array(x) for x in p])
        return [np.asarray(F[k], dtype=float) for k in range(3)]
    J = np.zeros((n, m, m))
    for j in range(m):
        h = 1e-6 * scales[j]
        cp = [c.copy() for c in comps]
        cm = [c.copy() for c in comps]
        cp[j] = cp[j] + h
        cm[j] = cm[j] - h
        Fp, Fm = G(cp), G(cm)
        for i in range(m):
            # non-dimensional Jacobian: rows / flux scale, columns * variable scale
            J[:, i, j] = (Fp[i] - Fm[i]) / (2 * h) * scales[j] / (scales[i] * np.where(rad > 0, rad, 1.0))
    ev = np.linalg.eigvals(J)
    return np.max(np.abs(ev), axis=1) * np.where(rad > 0, rad, 1.0)


def check_formula(case):
    md, model, mesh, disc, prim, size, n = _setup(case)
    cfl = case["cfl"]
    f = cases.build_field(model, mesh, cases.cons_from_prim(md, prim))
    keep = [d.copy() for d in f.data]
    dt = np.asarray(disc.calc_timestep(f, cfl), dtype=float)
    require(dt.shape == (n,), "dt-shape", "calc_timestep returns shape %r for %d cells" % (dt.shape, n))
    for a, b in zip(keep, f.data):
        require(np.array_equal(a, b), "dt-mutates-field", "calc_timestep modified the field")
    rad = analytic_radius(md, prim)
    with np.errstate(all="ignore"):
        ref = cfl * size / rad
    require(np.all(dt > 0), "dt-positive", "non-positive or NaN time step %r" % float(np.nanmin(dt)))
    fin = np.isfinite(ref)
    require(np.array_equal(np.isfinite(dt), fin), "dt-finite", "time step finiteness differs from CFL*dx/radius")
    if not np.any(fin):
        return dict(nontrivial=False, labels=["all-infinite-dt"])
    err = np.abs(dt[fin] - ref[fin]) / ref[fin]
    k = int(np.argmax(err))
    require(float(err[k]) <= 1e-12, "dt-formula", "dt = %r but CFL*size/(analytic spectral radius) = %r (rel err %.3g)" % (float(dt[fin][k]), float(ref[fin][k]), float(err[k])))
    # spectral radius from the model's own consistent flux
    if md["name"] != "burgers" or np.all(prim[0] != 0):
        rj = jacobian_radius(md, model, prim)
        ej = np.abs(rj - rad) / rad
        kk = int(np.argmax(ej))
        require(float(ej[kk]) <= 2e-5, "dt-flux-jacobian", "spectral radius of the flux Jacobian %r differs from the wave speed used by the time step %r (cell %d)" % (float(rj[kk]), float(cfl * size[kk] / dt[kk]), kk))
        target(float(ej[kk]), "jacobian-radius-error")
    # proportional to CFL (exact for a factor 2)
    dt2 = np.asarray(disc.calc_timestep(f, 2 * cfl), dtype=float)
    require(np.array_equal(dt2, 2 * dt), "dt-proportional-cfl", "dt(2 CFL) != 2 dt(CFL)")
    # independent of the other cells
    if n >= 2:
        j = case["other"] % n
        prim2 = [np.array(x, dtype=float, copy=True) for x in prim]
        name = md["name"]
        if name in ("convection", "burgers"):
            prim2[0][j] = prim2[0][j] * (1 + case["delta"]) + case["delta"]
        elif name == "shallowwater":
            prim2[0][j] *= (1 + case["delta"]); prim2[1][j] += case["delta"]
        elif name == "euler2d":
            prim2[0][j] *= (1 + case["delta"]); prim2[2][j] *= (1 + 2 * case["delta"]); prim2[1][:, j] += case["delta"]
        else:
            prim2[0][j] *= (1 + case["delta"]); prim2[2][j] *= (1 + 2 * case["delta"]); prim2[1][j] += case["delta"]
        f2 = cases.build_field(model, mesh, cases.cons_from_prim(md, prim2))
        dtb = np.asarray(disc.calc_timestep(f2, cfl), dtype=float)
        mask = np.arange(n) != j
        require(np.array_equal(dtb[mask], dt[mask]), "dt-local", "changing the state of cell %d changed the time step of another cell" % j)
    nontrivial = bool(np.any(fin) and (np.max(dt[fin]) > np.min(dt[fin]) * (1 + 1e-9)))
    labels = ["model:" + md["name"], "mesh:" + (case["mesh"]["kind"] if "mesh" in case else "2d")]
    if "mesh2d" in case:
        labels.append("dx=dy" if abs(case["mesh2d"]["lx"] / case["mesh2d"]["nx"] - case["mesh2d"]["ly"] / case["mesh2d"]["ny"]) < 1e-12 else "dx!=dy")
    return dict(nontrivial=nontrivial, labels=labels)


# ---------------------------------------------------------------- the dt a solve actually uses
def strat_solve(tier):
    nmax = 10 if tier == "quick" else 20
    ex, im = cases.integrator_names()
    md = st.one_of(gen.model_convection(), gen.model_burgers(), gen.model_shallowwater(), gen.model_euler1d())
    # what the SAME solver object did before the judged computation: nothing, or one solve with the other time-step directive and another CFL number
    prior = st.sampled_from(["none", "none", "other-directive"])
    one = md.flatmap(lambda m: st.builds(
        lambda me, s, cfl, integ, dtl, nit, prior: dict(model=m, mesh=me, state=s, cfl=cfl, integ=integ, dtlocal=dtl, nit=nit, prior=prior),
        gen.mesh_any(2, nmax), gen.state_for(m, True, lnrange=1.0, machmax=1.5) if m["name"] in ("euler1d", "shallowwater") else gen.state_scalar(True, 0.2, 2.0),
        gen.f(0.05, 0.5), st.sampled_from(ex + im), st.booleans(), st.integers(1, 4), prior))
    two = st.builds(lambda me, s, cfl, integ, dtl, nit, prior: dict(model=dict(name="euler2d", gamma=1.4), mesh2d=me, state=s, cfl=cfl, integ=integ, dtlocal=dtl, nit=nit, prior=prior),
                    gen.mesh2d(2, 4), gen.state_euler2d(True, lnrange=0.5, machmax=1.2), gen.f(0.05, 0.4), st.sampled_from(ex), st.booleans(), st.integers(1, 3), prior)
    return st.one_of(one, one, two)


THETA = {"implicit": 1.0, "backwardeuler": 1.0, "cranknicolson": 0.5, "trapezoidal": 0.5}


def _cellwise_implicit(case, model, mesh, disc, log, res, md=None):
    """"each cell's own value": with per-cell steps the linearised implicit step satisfies, cell by cell, dQ_i = dt_i [R(Q0) + theta J dQ]_i (theta = 1 backward Euler,
    1/2 Crank-Nicolson).  J is rebuilt here by CENTRAL differences of the operator, column by column; flowdyn uses one-sided differences, so wherever the operator has a
    kink (an upwind switch at u = 0, two equal wave speeds inside a min(), a limiter) the two differ by at most half the second difference of that column: that bound,
    times |dQ_j|, is added to the tolerance - exactly, not as a guess."""
    from vf import sim as _sim
    q0 = log[0][1]
    q1 = log[1][1] if len(log) > 1 else [np.array(d, dtype=float) for d in res[-1].data]
    dtc = log[0][2]
    if not (all(np.all(np.isfinite(x)) for x in q1) and np.all(np.isfinite(dtc)) and dtc.ndim == 1):
        return False
    dq = [b_ - a_ for a_, b_ in zip(q0, q1)]
    if max(float(np.max(np.abs(x))) for x in dq) == 0:
        return False
    neq, n = len(q0), len(q0[0])
    qnat, _a = _sim.state_scales(md, cases.prim_from_cons(md, q0))
    for k_ in range(neq):
        mk = float(np.mean(np.abs(q0[k_])))
        if 0.0 < mk < 1e-4 * qnat[k_]:
            return False          # a variable that is tiny but not zero: flowdyn's difference step (1e-6 x its mean) sinks into round-off, its Jacobian is mostly noise (see C01)
    rhs = lambda data: [np.array(x, dtype=float) for x in disc.rhs(cases.build_field(model, mesh, [np.array(a_, dtype=float, copy=True) for a_ in data]))]
    r0 = rhs(q0)
    if not all(np.all(np.isfinite(x)) for x in r0):
        return False
    jdq = [np.zeros(n) for _k in range(neq)]          # J dQ with the central Jacobian
    kdq = [np.zeros(n) for _k in range(neq)]          # sum_j (half second difference of column j) |dQ_j|: bound of (one-sided - central) J dQ
    adq = [np.zeros(n) for _k in range(neq)]          # sum_j |J_ij| |dQ_j|: what the ~1e-8..1e-7 relative noise of flowdyn's difference quotients acts on
    for k_ in range(neq):
        eps = 1e-6 * qnat[k_]
        for j in range(n):
            if dq[k_][j] == 0.0:
                continue
            qp = [x.copy() for x in q0]
            qm = [x.copy() for x in q0]
            qp[k_][j] += eps
            qm[k_][j] -= eps
            rp, rm = rhs(qp), rhs(qm)
            if not all(np.all(np.isfinite(x)) for x in rp + rm):
                return False
            for i_ in range(neq):
                jdq[i_] += (rp[i_] - rm[i_]) / (2 * eps) * dq[k_][j]
                kdq[i_] += np.abs(rp[i_] - 2 * r0[i_] + rm[i_]) / (2 * eps) * abs(dq[k_][j])
                adq[i_] += np.abs(rp[i_] - rm[i_]) / (2 * eps) * abs(dq[k_][j])
    th = THETA[case["integ"]]
    relup = max(float(np.max(np.abs(dq[k_]))) / qnat[k_] for k_ in range(neq))
    for k_ in range(neq):
        defect = np.abs(dq[k_] - dtc * (r0[k_] + th * jdq[k_]))
        # 1e-3 relative (truncation of both difference quotients, ~1e-8 noise of flowdyn's Jacobian amplified by the solve), the kink bound (x2), and a floor of 1e-5 of the
        # natural size of an update of this equation (an update that vanishes by symmetry still has a scale)
        tolv = 1e-3 * (np.abs(dq[k_]) + dtc * (np.abs(r0[k_]) + np.abs(jdq[k_]))) + 2 * th * dtc * kdq[k_] + 1e-5 * th * dtc * adq[k_] + 1e-5 * relup * qnat[k_] + 1e-12 * qnat[k_]
        j_ = int(np.argmax(defect - tolv))
        require(defect[j_] <= tolv[j_], "dtlocal-implicit-cellwise", "%s with per-cell time steps: in cell %d of equation %d the update %.6g is not dt_i [R + theta J dQ]_i = %.6g (dt_i = %.4g, tolerance %.3g)"
                % (case["integ"], j_, k_, float(dq[k_][j_]), float(dtc[j_] * (r0[k_][j_] + th * jdq[k_][j_])), float(dtc[j_]), float(tolv[j_])))
    return True


def check_solve(case):
    import flowdyn.integration as integ
    md, model, mesh, disc, prim, size, n = _setup(case)
    if "mesh2d" not in case:
        fl = None if md["name"] in ("convection", "burgers") else ("hll" if md["name"] == "shallowwater" else "hlle")
        disc = cases.build_disc(model, mesh, dict(name="extrapol1"), fl, {"type": "per"}, {"type": "per"})
    cls = getattr(integ, case["integ"])
    log = []

    class Rec(cls):
        def step(self, f, dtloc):
            log.append((f.time, [np.array(d, copy=True) for d in f.data], np.array(dtloc, dtype=float, copy=True)))
            return cls.step(self, f, dtloc)
    solver = Rec(mesh, disc)
    if md["name"] == "burgers" and np.all(prim[0] == 0):
        raise Skip("burgers data identically zero (dt = inf)")
    f0 = cases.build_field(model, mesh, cases.cons_from_prim(md, prim))
    directives = {"dtlocal": True} if case["dtlocal"] else {}
    if case.get("prior") == "other-directive" and not (case["integ"] == "gear" and not case["dtlocal"]):
        other = {} if case["dtlocal"] else {"dtlocal": True}
        try:
            solver.solve(f0.copy(), 0.5 * case["cfl"], stop={"maxit": 1}, directives=other)
        except np.linalg.LinAlgError:
            raise Skip("preliminary computation on the same solver fails (infinite local time step)")
        del log[:]
    res = solver.solve(f0, case["cfl"], stop={"maxit": case["nit"]}, directives=directives)
    require(len(log) == case["nit"], "solve-step-count", "%d step calls for maxit=%d without save times" % (len(log), case["nit"]))
    cellwise = False
    if case["dtlocal"] and case["integ"] in THETA and "mesh2d" not in case and len(log) >= 1:
        cellwise = _cellwise_implicit(case, model, mesh, disc, log, res, md=md)
    t = f0.time
    for k, (tk, data, dtk) in enumerate(log):
        pk = cases.prim_from_cons(md, data)
        if not all(np.all(np.isfinite(x)) for x in pk):
            break
        if md["name"] not in ("convection", "burgers") and (np.any(pk[0] <= 0) or np.any(pk[-1] <= 0)):
            break
        with np.errstate(all="ignore"):
            ref = case["cfl"] * size / analytic_radius(md, pk)
        if case["dtlocal"]:
            finr = np.isfinite(ref)
            require(dtk.shape == ref.shape and np.array_equal(np.isfinite(dtk), finr) and np.all(np.abs(dtk[finr] - ref[finr]) <= 1e-11 * ref[finr]),
                    "solve-dtlocal", "step %d does not receive each cell's own CFL time step" % k)
        else:
            require(dtk.ndim == 0 and abs(float(dtk) - float(np.min(ref))) <= 1e-11 * float(np.min(ref)), "solve-dt-global",
                    "step %d receives dt=%r, min over cells of CFL*size/radius is %r" % (k, dtk.tolist(), float(np.min(ref))))
        require(abs(tk - t) <= 1e-12 * max(abs(t), float(np.min(ref))), "solve-time", "step %d starts at time %r, expected %r" % (k, tk, t))
        t = t + float(np.min(ref))
    else:
        require(abs(res[-1].time - t) <= 1e-11 * abs(t), "solve-final-time", "final time %r, sum of the minimum time steps %r" % (res[-1].time, t))
        # the computation is continued on the SAME solver object with another CFL number: every step must use the new one
        cfl2 = case["cfl"] * (0.5 if case["nit"] % 2 else 1.6)
        nlog = len(log)
        if case["integ"] != "gear" and all(np.all(np.isfinite(d)) for d in res[-1].data):
            solver.restart(res[-1], cfl2, stop={"maxit": 2}, directives=directives)
            for k, (tk, data, dtk) in enumerate(log[nlog:]):
                pk = cases.prim_from_cons(md, data)
                if not all(np.all(np.isfinite(x)) for x in pk) or (md["name"] not in ("convection", "burgers") and (np.any(pk[0] <= 0) or np.any(pk[-1] <= 0))):
                    break
                with np.errstate(all="ignore"):
                    ref = cfl2 * size / analytic_radius(md, pk)
                if case["dtlocal"]:
                    finr = np.isfinite(ref)
                    require(dtk.shape == ref.shape and np.all(np.abs(dtk[finr] - ref[finr]) <= 1e-11 * ref[finr]), "restart-dtlocal", "restart with CFL %g after a solve with CFL %g: step %d does not use each cell's own step for the new CFL" % (cfl2, case["cfl"], k))
                else:
                    require(dtk.ndim == 0 and abs(float(dtk) - float(np.min(ref))) <= 1e-11 * float(np.min(ref)), "restart-dt-global",
                            "restart with CFL %g after a solve with CFL %g on the same solver: step %d receives dt=%r, expected %r" % (cfl2, case["cfl"], k, dtk.tolist(), float(np.min(ref))))
    return dict(nontrivial=True, labels=["integ:" + case["integ"], "dtlocal" if case["dtlocal"] else "dtglobal", "model:" + md["name"], "prior:" + case.get("prior", "none")] + (["implicit-dtlocal-cellwise"] if cellwise else []))


SUBCHECKS = [
    SubCheck("formula1d", check_formula, strategy=strat1d, examples={"quick": 500, "thorough": 3000}, shards={"quick": 3, "thorough": 12}),
    SubCheck("formula2d", check_formula, strategy=strat2d, examples={"quick": 250, "thorough": 1500}, shards={"quick": 2, "thorough": 8}),
    SubCheck("solve_uses_min_dt", check_solve, strategy=strat_solve, examples={"quick": 150, "thorough": 800}, shards={"quick": 4, "thorough": 16}),
]

META = dict(
    level_text="Generated search over states, meshes and CFL numbers for all models: the per-cell time step is compared with CFL x size / spectral radius, the radius being "
               "obtained both analytically and from the numerically differentiated consistent flux of the model itself; proportionality, locality, and the dt each step of a "
               "real solve receives (recording integrator subclass, global and local time stepping) are checked. Exploration only.",
    level_note="trusted: numpy eigvals; central-difference Jacobian (tolerance 2e-5); analytic radius at 1e-12",
    technique="property-based testing (Hypothesis given): differential against an independent spectral-radius oracle + observation of solve's step calls",
)
