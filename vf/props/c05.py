"""C05 - explicit Runge-Kutta integrators meet their order conditions for every right-hand side.

A fake discretisation (any object with rhs(field)) replaces the space operator, so the integrator is exercised on generated programs:
  tableau   : stage k returns the unit vector e_k -> Butcher tableau (A, b, c) and the times presented to the stages;
  algebra   : rooted-tree order conditions up to the nominal order, sum b = 1, c_i = sum_j a_ij = recorded stage time, stability polynomial
              (published Bogey-Bailly coefficients, Taylor polynomials), Kraaijevanger SSP radius;
  programs  : generated nonlinear / time-dependent / non-smooth right-hand sides: integrator.step == generic RK step with that tableau;
  ssp       : generated forward-Euler-contractive operators: one step at dt = tau keeps the range (rk3ssp, rk2_heun, explicit).
"""
import cmath
import math
import zlib

import numpy as np
from hypothesis import strategies as st

from vf import cases, gen, oracles, sim
from vf.runner import Skip, SubCheck, canonical, Violation, require, target

RULE = ("tableau/algebra: every explicit integrator class exported by flowdyn.integration (discovered at run time) x t0, dt over 6 decades x field size; programs: right-hand sides drawn from a "
        "grammar (A y; A y + B sin y; componentwise polynomials; g(t) A y; max/min filters) of dimension 1..8 with generated coefficients, 1 or 2 equations, scalar or per-component dt; "
        "ssp: generated neighbour-selection operators. non-trivial = nonlinear or time-dependent right-hand side with |f| > 0 (programs), every class x dt (tableau); distinct = distinct JSON")
ASSUMPTIONS = ["nominal orders: explicit/forwardeuler 1; rk2, rk2_heun 2; rk3_heun, rk3ssp 3; rk4 4; lsrk25bb, lsrk26bb, lsrk4 2 (as the property states)",
               "Bogey-Bailly coefficients (JCP 194, 2004) to the 12 published digits: relative tolerance 1e-8 on each gamma_k",
               "order conditions to 1e-13, stage times to 4 ulp of t + dt, program agreement to 1e-12 relative"]

ORDER = {"explicit": 1, "forwardeuler": 1, "rk2": 2, "rk2_heun": 2, "rk3_heun": 3, "rk3ssp": 3, "rk4": 4, "lsrk25bb": 2, "lsrk26bb": 2, "lsrk4": 2}
TAYLOR = [1.0, 0.5, 1.0 / 6.0, 1.0 / 24.0]
POLY = {"lsrk25bb": [1.0, 0.5, 0.165250353664, 0.039372585984, 0.007149096448],
        "lsrk26bb": [1.0, 0.5, 0.165919771368, 0.040919732041, 0.007555704391, 0.000891421261],
        "lsrk4": TAYLOR, "rk4": TAYLOR, "rk3ssp": TAYLOR[:3], "rk3_heun": TAYLOR[:3], "rk2": TAYLOR[:2], "rk2_heun": TAYLOR[:2], "explicit": TAYLOR[:1], "forwardeuler": TAYLOR[:1]}
SSP1 = ["explicit", "forwardeuler", "rk2_heun", "rk3ssp"]
EPS = np.finfo(float).eps


class FakeModel(object):
    def __init__(self, neq, islinear=0):
        self.neq = neq
        self.shape = [1] * neq
        self.islinear = islinear        # flowdyn's flag "the physical model is linear" (convection): says nothing about the discretised right-hand side


class FakeMesh(object):
    def __init__(self, n):
        self.ncell = n


class FakeDisc(object):
    """replaces modeldisc: rhs(field) -> list of arrays, records what it is given"""

    def __init__(self, fun):
        self.fun = fun
        self.calls = []

    def rhs(self, field):
        self.calls.append((field.time, [np.array(d, dtype=float, copy=True) for d in field.data]))
        return self.fun(len(self.calls) - 1, field.time, field.data)


def make_field(data, t0, islinear=0):
    import flowdyn.field as ffield
    neq = len(data)
    n = len(data[0])
    return ffield.fdata(FakeModel(neq, islinear), FakeMesh(n), [np.array(d, dtype=float) for d in data], t=t0)


def make_solver(name, disc, n):
    import flowdyn.integration as integ
    return getattr(integ, name)(FakeMesh(n), disc)


def extract_tableau(name, t0=0.0, dt=1.0, m=8, islinear=0):
    """(A, b, c_from_times, nstage)"""
    y0 = np.zeros(m)

    def fun(k, t, data):
        if k >= m:
            raise Violation("too-many-stages", "%s evaluates the right-hand side more than %d times in one step" % (name, m))
        e = np.zeros(m)
        e[k] = 1.0
        return [e]
    disc = FakeDisc(fun)
    solver = make_solver(name, disc, m)
    f = make_field([y0], t0, islinear)
    solver.step(f, dt)
    s = len(disc.calls)
    A = np.zeros((s, s))
    c = np.zeros(s)
    for i, (ti, data) in enumerate(disc.calls):
        A[i, :] = (data[0][:s] - y0[:s]) / dt
        c[i] = (ti - t0) / dt
    b = (np.asarray(f.data[0], dtype=float)[:s] - y0[:s]) / dt
    return A, b, c, s, f.time


def explicit_names():
    ex, _im = cases.integrator_names()
    return ex


# ---------------------------------------------------------------- tableau / algebra
def strat_tableau(tier):
    return st.builds(lambda nm, t0, dt, zs: dict(integ=nm, t0=t0, dt=dt, z=zs), st.sampled_from(explicit_names()), st.one_of(st.just(0.0), gen.sfloat(-3, 3)), gen.logf(-3, 3),
                     st.lists(st.tuples(gen.f(-3, 1), gen.f(-3, 3)).map(list), min_size=1, max_size=4))


def check_tableau(case):
    name = case["integ"]
    if name not in ORDER:
        # an integrator class the property does not name (added after this check was written): it has no nominal order to be judged against - counted, not judged
        raise Skip("explicit integrator %r is not one of those the property names (no nominal order)" % name)
    t0, dt = case["t0"], case["dt"]
    A, b, c, s, tend = extract_tableau(name, t0, dt)
    # the tableau must not depend on t0 / dt (pure RK method)
    A1, b1, c1, s1, _ = extract_tableau(name, 0.0, 1.0)
    require(s1 == s and np.allclose(A, A1, rtol=0, atol=1e-12) and np.allclose(b, b1, rtol=0, atol=1e-12), "tableau-depends-on-dt", "%s: extracted coefficients depend on t0/dt" % name)
    A, b = A1, b1
    # ... nor on the model's "linear" flag: the flag describes the physical model, the right-hand side handed to the integrator need not be linear
    A2, b2, c2, s2, _ = extract_tableau(name, 0.0, 1.0, islinear=1)
    require(s2 == s and np.allclose(A, A2, rtol=0, atol=1e-14) and np.allclose(b, b2, rtol=0, atol=1e-14) and np.allclose(c1, c2, rtol=0, atol=1e-14), "tableau-depends-on-model-flag",
            "%s: the Runge-Kutta coefficients / stage times differ when the model is flagged linear (weights %r vs %r)" % (name, b2.tolist(), b.tolist()))
    require(np.allclose(np.triu(A), 0.0, atol=1e-15), "not-explicit", "%s: a stage depends on a later stage" % name)
    # time bookkeeping: stage abscissae c_i = sum_j a_ij, times presented to the stages t0 + c_i dt, end time t0 + dt
    cA = A.sum(axis=1)
    tscale = abs(t0) + abs(dt)
    for i in range(s):
        require(abs((t0 + c[i] * dt) - (t0 + cA[i] * dt)) <= 8 * EPS * tscale + 1e-13 * dt, "stage-time",
                "%s: stage %d is evaluated at t + %.12g*dt but its abscissa (row sum of A) is %.12g" % (name, i, c[i], cA[i]))
    require(abs(tend - (t0 + dt)) <= 8 * EPS * tscale, "step-advances-dt", "%s: one step advances the time by %r, dt = %r" % (name, tend - t0, dt))
    require(abs(b.sum() - 1.0) <= 1e-13, "weights-sum-to-one", "%s: sum of the weights is %r" % (name, float(b.sum())))
    worst = 0.0
    for cond, res in oracles.rk_order_conditions(A, b, cA, ORDER[name]).items():
        require(abs(res) <= 1e-13, "order-condition", "%s (nominal order %d): order condition %s violated by %.3g" % (name, ORDER[name], cond, res))
        worst = max(worst, abs(res))
    target(worst, "order-condition-residual")
    # stability polynomial
    gam = oracles.stability_polynomial(A, b)
    ref = POLY[name]
    require(len(gam) >= len(ref), "stability-degree", "%s has %d stages, fewer than the degree %d of its nominal stability polynomial" % (name, len(gam), len(ref)))
    for k, gk in enumerate(ref):
        require(abs(gam[k] - gk) <= 1e-8 * gk, "stability-polynomial", "%s: coefficient gamma_%d of the stability polynomial is %.13g, published/nominal value %.13g" % (name, k + 1, gam[k], gk))
    for k in range(len(ref), len(gam)):
        require(abs(gam[k]) <= 1e-12, "stability-polynomial", "%s: unexpected coefficient gamma_%d = %.3g" % (name, k + 1, gam[k]))
    # propagator() agrees with the polynomial
    solver = make_solver(name, FakeDisc(lambda k, t, d: [0 * d[0]]), 1)
    for zr, zi in case["z"]:
        z = complex(zr, zi)
        pz = complex(np.asarray(solver.propagator(z)).ravel()[0])
        rz = 1.0 + sum(gk * z ** (k + 1) for k, gk in enumerate(ref))
        require(abs(pz - rz) <= 1e-8 * (1.0 + abs(z) ** len(ref)), "propagator", "%s.propagator(%r) = %r, polynomial gives %r" % (name, z, pz, rz))
    # SSP
    if name in SSP1:
        r = oracles.ssp_coefficient(A, b)
        require(r >= 1.0 - 1e-9, "ssp-coefficient", "%s: SSP coefficient (radius of absolute monotonicity) is %.6f < 1" % (name, r))
    return dict(nontrivial=True, labels=["integ:" + name, "stages:%d" % s])


# ---------------------------------------------------------------- generated programs
def _mat(d):
    return st.lists(st.lists(gen.sfloat(-2, 0.3), min_size=d, max_size=d), min_size=d, max_size=d)


def strat_programs(tier):
    def build(d):
        kinds = st.sampled_from(["linear", "sin", "poly", "time", "maxfilter", "gated", "gated"] + (["secondorder-view", "secondorder-view"] if d >= 2 and d % 2 == 0 else []))
        return st.builds(lambda nm, kind, A, B, y0, t0, dt, neq, dtv, om, alloc: dict(integ=nm, kind=kind, A=A, B=B, y0=y0, t0=t0, dt=dt, neq=neq, dtvec=dtv, omega=om, alloc=alloc),
                         st.sampled_from(explicit_names()), kinds, _mat(d), _mat(d), st.lists(gen.sfloat(-2, 1), min_size=d, max_size=d), st.one_of(st.just(0.0), gen.sfloat(-2, 2)),
                         gen.logf(-3, 0.5), st.sampled_from([1, 2]) if d >= 2 else st.just(1),
                         st.one_of(st.none(), st.lists(gen.f(1.0, 3.0), min_size=d, max_size=d)), gen.f(0.1, 5.0),
                         # how the operator hands its result over: new arrays at every call, or work arrays allocated once (the same list of the same array objects,
                         # overwritten at every evaluation - a common optimisation of user-written operators)
                         st.sampled_from(["fresh", "fresh", "workarray"]))
    return st.builds(lambda c, lin: dict(c, islinear=lin), st.integers(1, 8).flatmap(build), st.sampled_from([0, 0, 1]))


def rhs_function(case):
    A = np.array(case["A"], dtype=float)
    B = np.array(case["B"], dtype=float)
    kind = case["kind"]
    om = case["omega"]
    if kind == "linear":
        return lambda t, y: A @ y
    if kind == "sin":
        return lambda t, y: A @ y + B @ np.sin(y)
    if kind == "poly":
        return lambda t, y: A @ y + np.diag(B) * y * y - 0.1 * y ** 3
    if kind == "time":
        return lambda t, y: (1.0 + math.cos(om * t)) * (A @ y) + math.sin(om * t) * np.diag(B)
    if kind == "maxfilter":
        return lambda t, y: np.maximum(A @ y, np.roll(y, 1)) - y
    if kind == "gated":
        # a forcing that is switched off at time t0 + theta*dt (theta = omega/5 in (0,1)): the last block of the right-hand side is EXACTLY zero at the
        # stages evaluated after the gate and non-zero before it (sources that switch off, valves, pulses)
        tg = case["t0"] + (om / 5.0) * case["dt"]
        h = max(1, len(A) // 2)

        def gated(t, y):
            r = A @ y + np.diag(B)
            if t > tg:
                r = r.copy()
                r[h:] = 0.0
            return r
        return gated
    if kind == "secondorder-view":
        # second-order system x'' = g(x, x', t) written as first-order system (x, v)' = (v, g): see check_programs, where the first block of the
        # residual is returned as the array field.data[1] ITSELF (no copy) - natural numpy code, and a pure function of the field
        h = len(A) // 2
        A11, B11 = A[:h, :h], B[:h, :h]
        return lambda t, y: np.concatenate([y[h:], A11 @ np.sin(y[:h]) - 0.1 * y[h:] + math.cos(om * t) * np.diag(B11)])
    raise ValueError(kind)


def check_programs(case):
    name = case["integ"]
    f = rhs_function(case)
    y0 = np.array(case["y0"], dtype=float)
    d = len(y0)
    t0 = case["t0"]
    dtv = case["dtvec"]
    dt = case["dt"] if dtv is None else case["dt"] * np.array(dtv, dtype=float)
    neq = case["neq"]
    split = d // 2 if neq == 2 else d

    if case["kind"] == "secondorder-view":
        neq, split = 2, d // 2
    if case["kind"] == "gated" and d >= 2:
        neq, split = 2, max(1, d // 2)            # the gated block is the second equation of the field

    work = []

    def fun(k, t, data):
        y = np.concatenate([np.asarray(x, dtype=float) for x in data]) if neq == 2 else np.asarray(data[0], dtype=float)
        r = np.asarray(f(t, y), dtype=float)
        if case["kind"] == "secondorder-view":
            return [data[1], r[split:].copy()]        # dx/dt = v returned as the field's own velocity array (shares memory with the field)
        parts = [r[:split], r[split:]] if neq == 2 else [r]
        if case.get("alloc") == "workarray":
            if not work:
                work.extend(np.empty(len(p_)) for p_ in parts)
            for w_, p_ in zip(work, parts):
                w_[...] = p_
            return work
        return [p_.copy() for p_ in parts]
    disc = FakeDisc(fun)
    if neq == 2:
        if d % 2:
            neq, split = 1, d
            field = make_field([y0], t0, case.get("islinear", 0))
        else:
            field = make_field([y0[:split], y0[split:]], t0, case.get("islinear", 0))
        n = split
    else:
        field = make_field([y0], t0, case.get("islinear", 0))
        n = d
    dtarg = dt if np.ndim(dt) == 0 else (dt[:split] if neq == 2 else dt)
    if neq == 2 and np.ndim(dt) == 1:
        dt = np.concatenate([dtarg, dtarg])          # the same per-cell time step applies to every equation
    solver = make_solver(name, disc, n)
    hist = zlib.crc32(canonical(case).encode()) % 3
    if hist:
        # the solver has stepped before, on other data and with another time step. hist == 2 and a per-component step: the caller keeps ONE time-step buffer
        # and refills it in place between the calls (dt[:] = calc_timestep(...)), so the judged step receives the same array object with new contents
        scratch = make_field([0.5 * np.asarray(x_, dtype=float) + 0.25 for x_ in field.data], t0 - 1.0, case.get("islinear", 0))
        if np.ndim(dtarg) == 0:
            solver.step(scratch, 1.75 * dtarg)
        else:
            buf = 1.75 * np.array(dtarg, dtype=float)
            solver.step(scratch, buf)
            if hist == 2:
                buf[...] = dtarg
                dtarg = buf
        del disc.calls[:]
    solver.step(field, dtarg)
    got = np.concatenate([np.asarray(x, dtype=float) for x in field.data])
    A, b, c, s, _ = extract_tableau(name)
    cA = A.sum(axis=1)
    dts = float(np.min(dt))
    # reference: generic RK step; per-component dt multiplies the increments, the stage time uses min(dt)
    ks = []
    for i in range(s):
        yi = y0.copy()
        for j in range(i):
            if A[i, j] != 0.0:
                yi = yi + dt * A[i, j] * ks[j]
        ks.append(np.asarray(f(t0 + cA[i] * dts, yi), dtype=float))
    ref = y0.copy()
    for i in range(s):
        ref = ref + dt * b[i] * ks[i]
    if not np.all(np.isfinite(ref)):
        return dict(nontrivial=False, labels=["overflowing-program"])
    scale = float(np.max(np.abs(y0))) + float(np.max(np.abs(dt))) * max(float(np.max(np.abs(k))) for k in ks) + 1e-300
    err = float(np.max(np.abs(got - ref))) / scale
    require(err <= 1e-12, "step-is-rk-step", "%s.step differs from the Runge-Kutta step with its own tableau by %.3g (relative) on a %s right-hand side of dimension %d (neq=%d, %s dt)"
            % (name, err, case["kind"], d, neq, "scalar" if np.ndim(dt) == 0 else "per-component"))
    require(len(disc.calls) == s, "stage-count", "%s used %d evaluations, tableau has %d stages" % (name, len(disc.calls), s))
    require(abs(field.time - (t0 + dts)) <= 8 * EPS * (abs(t0) + dts), "step-advances-min-dt", "%s: time advances by %r, min(dt) = %r" % (name, field.time - t0, dts))
    # stage times as seen by a time-dependent right-hand side
    for i, (ti, _d) in enumerate(disc.calls):
        require(abs(ti - (t0 + cA[i] * dts)) <= 8 * EPS * (abs(t0) + dts) + 1e-13 * dts, "stage-time", "%s: stage %d evaluated at time %r, abscissa gives %r" % (name, i, ti, t0 + cA[i] * dts))
    target(err, "program-error")
    nontrivial = case["kind"] != "linear" and any(float(np.max(np.abs(k))) > 0 for k in ks)
    return dict(nontrivial=nontrivial, labels=["integ:" + name, "kind:" + case["kind"], "neq:%d" % neq, "dt:" + ("scalar" if np.ndim(dt) == 0 else "vector"),
                                                   "rhs-returns:" + (case.get("alloc", "fresh") if case["kind"] != "secondorder-view" else "view-of-field"), "model-flag-linear:%d" % case.get("islinear", 0),
                                                   "solver-history:" + ["fresh", "stepped-before", "stepped-before-same-dt-buffer"][hist if (hist < 2 or np.ndim(dt) == 1) else 1]])


# ---------------------------------------------------------------- real space operators
def strat_real(tier):
    nmax = 8 if tier == "quick" else 16

    def cfg(md):
        fmd = md
        return st.builds(lambda me, num, s_, fl, integ, cfl, t0: dict(model=md, mesh=me, num=num, state=s_, flux=fl, integ=integ, cfl=cfl, t0=t0),
                         gen.mesh_any(3, nmax), gen.num_any(), gen.state_for(md, False, lnrange=0.5, machmax=1.2, smooth_amp=0.2) if md["name"] not in ("convection", "burgers") else gen.state_scalar(True, 0.2, 2.0),
                         st.sampled_from(cases.flux_names(fmd)), st.sampled_from(explicit_names()), gen.f(0.05, 0.6), st.one_of(st.just(0.0), gen.sfloat(-2, 2)))
    return st.one_of(gen.model_convection(), gen.model_convection(), gen.model_burgers(), gen.model_shallowwater(), gen.model_euler1d()).flatmap(cfg)


def check_real(case):
    """one step on a REAL flowdyn discretisation (periodic; linear and non-linear reconstructions, every model) equals the generic Runge-Kutta step with the
    integrator's own tableau, the right-hand side being evaluated by a second, independent discretisation object of the same configuration"""
    name = case["integ"]
    md = case["model"]
    c = dict(case, bcL={"type": "per"}, bcR={"type": "per"})
    P = sim.problem1d(c)
    Pref = sim.problem1d(c)
    shapes = [len(np.asarray(d)) for d in P.field.data]
    y0 = np.concatenate([np.asarray(d, dtype=float) for d in P.field.data])
    t0 = case["t0"]

    def f(t, y):
        parts, o = [], 0
        for m_ in shapes:
            parts.append(y[o:o + m_].copy())
            o += m_
        r = Pref.disc.rhs(cases.build_field(Pref.model, Pref.mesh, parts, t=t))
        return np.concatenate([np.asarray(x, dtype=float) for x in r])
    field = cases.build_field(P.model, P.mesh, [np.array(d, dtype=float) for d in P.field.data], t=t0)
    dt = float(np.min(P.disc.calc_timestep(field, case["cfl"])))
    if not np.isfinite(dt):
        raise Skip("infinite time step")
    times = []
    orig = P.disc.rhs

    def rec(fld):
        times.append(fld.time)
        return orig(fld)
    P.disc.rhs = rec
    solver = cases.build_integrator(name, P.mesh, P.disc)
    # the integrator object may have a past (see sim.preuse_solver; variant 3 is a run with a residual monitor firing at every iteration): a step() afterwards is still
    # the Runge-Kutta step of the field it is given
    hist = sim.preuse_solver(P, solver, case, case["cfl"])
    del times[:]
    solver.step(field, dt)
    got = np.concatenate([np.asarray(d, dtype=float) for d in field.data])
    A, b, _c, s, _ = extract_tableau(name)
    cA = A.sum(axis=1)
    ref = oracles.rk_step(A, b, cA, f, t0, y0, dt)
    if not (np.all(np.isfinite(ref)) and np.all(np.isfinite(got))):
        raise Skip("extrapolated face states outside the admissible set")
    qsc, _a = sim.state_scales(P.smd, P.prim)
    sc = np.concatenate([np.full(m_, q) for m_, q in zip(shapes, qsc)])
    err = float(np.max(np.abs(got - ref) / sc))
    lim = case["num"].get("limiter", case["num"]["name"])
    require(err <= 1e-12, "real-step-is-rk-step", "%s.step on %s/%s/%s differs from the Runge-Kutta step with its own tableau by %.3g (relative to the state scale; cfl=%g, n=%d)"
            % (name, md["name"], case["flux"], lim, err, case["cfl"], P.n))
    require(len(times) == s, "real-stage-count", "%s evaluates the operator %d times, its tableau has %d stages" % (name, len(times), s))
    for i, ti in enumerate(times):
        require(abs(ti - (t0 + cA[i] * dt)) <= 8 * EPS * (abs(t0) + dt) + 1e-13 * dt, "real-stage-time", "%s on %s: stage %d evaluated at time %r, abscissa gives %r" % (name, md["name"], i, ti, t0 + cA[i] * dt))
    target(err, "real-operator-error")
    return dict(nontrivial=bool(np.max(np.abs(got - y0)) > 0), labels=["integ:" + name, "model:" + md["name"], "num:" + lim, "linear-model" if md["name"] == "convection" else "nonlinear-model"])


# ---------------------------------------------------------------- SSP behaviour
def strat_ssp(tier):
    def build(d):
        return st.builds(lambda nm, y0, sel, mode, tau: dict(integ=nm, y0=y0, sel=sel, mode=mode, tau=tau), st.sampled_from(SSP1),
                         st.lists(st.one_of(gen.f(-2, 2), st.sampled_from([0.0, 1.0, -1.0])), min_size=d, max_size=d),
                         st.lists(st.integers(0, d - 1), min_size=d, max_size=d), st.lists(st.sampled_from(["sel", "max", "min"]), min_size=d, max_size=d), gen.logf(-2, 1))
    return st.integers(2, 10).flatmap(build)


def check_ssp(case):
    """L(y)_i = (y_sel(i) - y_i)/tau, or max/min of the two neighbours: forward Euler with dt <= tau is a convex combination, so the range is kept"""
    name = case["integ"]
    y0 = np.array(case["y0"], dtype=float)
    d = len(y0)
    sel = np.array(case["sel"])
    tau = case["tau"]
    mode = case["mode"]

    def L(y):
        out = np.empty(d)
        for i in range(d):
            if mode[i] == "sel":
                tgt = y[sel[i]]
            elif mode[i] == "max":
                tgt = max(y[(i - 1) % d], y[(i + 1) % d])
            else:
                tgt = min(y[(i - 1) % d], y[(i + 1) % d])
            out[i] = (tgt - y[i]) / tau
        return out
    disc = FakeDisc(lambda k, t, data: [L(np.asarray(data[0], dtype=float))])
    solver = make_solver(name, disc, d)
    f = make_field([y0], 0.0)
    solver.step(f, tau)
    y1 = np.asarray(f.data[0], dtype=float)
    lo, hi = float(np.min(y0)), float(np.max(y0))
    tol = 1e-13 * (abs(lo) + abs(hi) + 1e-300)
    over = max(float(np.max(y1)) - hi, lo - float(np.min(y1)))
    require(over <= tol, "ssp-range", "%s: one step at dt = tau of a forward-Euler-contractive operator leaves the range [%r,%r] by %.3g" % (name, lo, hi, over))
    target(over, "ssp-overshoot")
    return dict(nontrivial=bool(hi > lo), labels=["integ:" + name])


SUBCHECKS = [
    SubCheck("tableau_algebra", check_tableau, strategy=strat_tableau, examples={"quick": 300, "thorough": 1500}, shards={"quick": 2, "thorough": 8}),
    SubCheck("programs", check_programs, strategy=strat_programs, examples={"quick": 500, "thorough": 3000}, shards={"quick": 4, "thorough": 16}),
    SubCheck("real_operators", check_real, strategy=strat_real, examples={"quick": 150, "thorough": 1000}, shards={"quick": 4, "thorough": 16}),
    SubCheck("ssp_behaviour", check_ssp, strategy=strat_ssp, examples={"quick": 400, "thorough": 3000}, shards={"quick": 2, "thorough": 8}),
]

META = dict(
    level_text="The Butcher tableau of every exported explicit integrator is extracted through a fake discretisation (stage k returns e_k) and judged algebraically (order conditions to "
               "the nominal order, weights, abscissae = times presented to the stages, published stability polynomials, SSP radius); generated nonlinear, time-dependent and non-smooth "
               "programs then confirm that step() IS the Runge-Kutta step with that tableau, which is what makes the algebra meaningful for every right-hand side. The algebraic part "
               "is complete for methods of the extracted form; the program part is exploration.",
    level_note="trusted: numpy; rooted-tree conditions and Kraaijevanger test in vf/oracles.py; Bogey-Bailly coefficients as published (12 digits)",
    technique="property-based testing over generated programs (right-hand sides) + algebraic validity predicates on the extracted tableau",
)
