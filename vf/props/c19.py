"""C19 - source terms are added exactly once, to their own equation.

Metamorphic/differential: rhs(model with sources) - rhs(same model without) must be the source functions evaluated by the
oracle at the cell centres (recomputed from the faces) and the conservative state; for the nozzle the difference with plain
euler1d must be -g_i * (rho u, rho u^2, u(rho E + p)) with one geometric factor g_i per cell that is a value of A'/A(xc)
inside the cell (exact for constant and linear section laws), independent of the state and of a rescaling of A.
"""
import numpy as np
from hypothesis import strategies as st

from vf import cases, gen, sim
from vf.runner import Skip, SubCheck, require, target

RULE = ("cases = model (euler1d, shallowwater, nozzle with a section law from 5 families) x per-equation source list (None or c0 + cx*x + sum cq_j*Q_j with generated "
        "coefficients) x mesh (uniform/refined/morphed/arbitrary faces, 1..24 cells) x reconstruction x registered flux x boundary pair (per, sym, dirichlet) x admissible "
        "state. non-trivial = at least one non-None source entry (source sub-check) / non-constant section and non-zero velocity (nozzle sub-check); distinct = distinct JSON")
ASSUMPTIONS = ["tolerance 1e-12 x (|rhs| + |S|) on differences of two operator evaluations",
               "the nozzle geometric factor may be any value of A'(x)/A(xc) for x inside the cell (mean-value bound, 33 samples) - exact for constant/linear laws",
               "unlimited high-order reconstructions only see smooth data (face states must stay admissible)"]


def _src_entry():
    coef = gen.sfloat(-2, 1)
    fresh = st.builds(lambda c0, cx, cq: dict(c0=c0, cx=cx, cq=cq), coef, coef, st.lists(coef, min_size=0, max_size=3))
    table = st.builds(lambda c0, cx: dict(c0=c0, cx=cx, mode="table"), coef, coef)         # a stored array, the same object at every call
    view = st.builds(lambda j: dict(mode="view", var=j), st.integers(0, 1))                 # the source is a conserved variable: returns the state array itself
    ratio = st.builds(lambda c0: dict(c0=c0, mode="ratio"), coef)                            # k * q1 / q0: depends on the state, invariant under a rescaling of it
    return st.one_of(st.none(), fresh, fresh, table, view, ratio)


def _bcpair(md):
    name = md["name"]
    per = st.just(({"type": "per"}, {"type": "per"}))
    sym = st.just(({"type": "sym"}, {"type": "sym"}))
    if name == "shallowwater":
        dr = st.just(({"type": "dirichlet", "prim": [1.0, 0.1]}, {"type": "inf"}))
    else:
        dr = st.just(({"type": "dirichlet", "prim": [1.0, 0.1, 1.0]}, {"type": "outsup"}))
    return st.one_of(per, sym, dr)


def _config(md, tier, varying_section=False):
    nmax = 12 if tier == "quick" else 24
    smooth = st.booleans()

    def build(reuse, me, rough, num_r, num_s, st_r, st_s, fl, bc):
        return dict(mesh=me, num=(num_r if rough else num_s), state=(st_r if rough else st_s), flux=fl, bcL=bc[0], bcR=bc[1], reuse_model=reuse)
    return st.builds(build, st.booleans(), gen.mesh_any_or_big(1, nmax), smooth, gen.num_robust(), gen.num_any(),
                     gen.state_for(md, True, lnrange=1.5, machmax=2.0), gen.state_for(md, False, lnrange=1.0, machmax=1.5, smooth_amp=0.05),
                     st.sampled_from(cases.flux_names(md if md["name"] != "nozzle" else dict(name="euler1d"))), _bcpair(md))


def strat_sources(tier):
    def with_src(md):
        neq = cases.model_neq(md)
        # the nozzle accepts (and documents, by enumerating the user's list) lists shorter than the number of equations: the missing entries are None
        nmin = 1 if md["name"] == "nozzle" else neq
        return st.builds(lambda cfg, src: dict(cfg, model=md, source=src), _config(md, tier), st.lists(_src_entry(), min_size=nmin, max_size=neq))
    return st.one_of(gen.model_euler1d(), gen.model_shallowwater(), gen.model_nozzle(varying=True)).flatmap(with_src)


def strat_nozzle(tier):
    return gen.model_nozzle(varying=True).flatmap(lambda md: st.builds(
        lambda cfg, sc, st2, rest: dict(cfg, model=md, scaleA=sc, state2=(st2 if not rest else dict(st2, mach=dict(k="const", v=0.0)))), _config(md, tier), gen.logf(-2, 2),
        gen.state_euler(False, lnrange=1.0, machmax=1.5, smooth_amp=0.05), st.sampled_from([False, False, True])))      # second state: a third of the time a gas at rest


def _operator(md, case, source, reuse=False):
    mdd = dict(md)
    if source is not None:
        mdd["source"] = source
    model = cases.build_model(mdd)
    mesh = cases.build_mesh(case["mesh"])
    if reuse:
        # the model object has already served another computation: an operator on a DIFFERENT mesh with the same number of cells and the same end
        # faces (another cell distribution) was built with it and evaluated once before the operator under test is built
        xf = np.asarray(mesh.xf, dtype=float)
        s_ = np.linspace(0.0, 1.0, len(xf))
        xd = xf[0] + (xf[-1] - xf[0]) * (s_ + 0.3 * s_ * (1.0 - s_))
        xd[0], xd[-1] = xf[0], xf[-1]
        if np.all(np.diff(xd) > 0):
            decoy = cases.mesh_from_faces(xd)
            discD = cases.build_disc(model, decoy, case["num"], case["flux"], cases.bc_clean(case["bcL"]), cases.bc_clean(case["bcR"]))
            primD, _x = _prim(md, case, decoy)
            _rhs(discD, model, decoy, md, primD)
    disc = cases.build_disc(model, mesh, case["num"], case["flux"], cases.bc_clean(case["bcL"]), cases.bc_clean(case["bcR"]))
    return model, mesh, disc


def _prim(md, case, mesh, key="state"):
    xf = np.asarray(mesh.xf, dtype=float)
    return cases.prim_state(md if md["name"] != "nozzle" else dict(name="euler1d", gamma=md.get("gamma", 1.4)), case[key], cases.norm_coord(xf)), xf


def _rhs(disc, model, mesh, md, prim):
    q = cases.cons_from_prim(md if md["name"] != "nozzle" else dict(name="euler1d", gamma=md.get("gamma", 1.4)), prim)
    f = cases.build_field(model, mesh, q)
    r = disc.rhs(f)
    return [np.array(x, dtype=float, copy=True) for x in r], q


def check_sources(case):
    md = case["model"]
    src = case["source"]
    model0, mesh0, disc0 = _operator(md, case, None)
    prim, xf = _prim(md, case, mesh0)
    r0, q = _rhs(disc0, model0, mesh0, md, prim)
    if not all(np.all(np.isfinite(x)) for x in r0):
        sim.nonfinite_operator(case["num"])
    model1, mesh1, disc1 = _operator(md, case, src, reuse=case.get("reuse_model", False))
    r1, _ = _rhs(disc1, model1, mesh1, md, prim)
    xc = 0.5 * (xf[1:] + xf[:-1])
    worst = 0.0
    src_full = list(src) + [None] * (len(r0) - len(src))
    for i, d in enumerate(src_full):
        diff = r1[i] - r0[i]
        if d is None:
            require(np.array_equal(r1[i], r0[i]), "none-source", "a None source entry changed equation %d" % i)
            continue
        S = cases.source_value(d, xc, q)
        tol = 1e-12 * (np.abs(r0[i]) + np.abs(S)) + 1e-300
        err = np.abs(diff - S)
        k = int(np.argmax(err - tol))
        require(err[k] <= tol[k], "source-added-once", "equation %d, cell %d: rhs_with - rhs_without = %r, source(x,Q) = %r" % (i, k, float(diff[k]), float(S[k])))
        worst = max(worst, float(np.max(err / (np.abs(r0[i]) + np.abs(S) + 1e-300))))
    target(worst, "source-error")
    # a second evaluation of the same operator object gives the same result, and a tabulated source is left untouched
    r2, _ = _rhs(disc1, model1, mesh1, md, prim)
    for i in range(len(r1)):
        require(np.array_equal(r1[i], r2[i]), "second-evaluation", "equation %d: the second evaluation of the operator with sources differs from the first by %.3g" % (i, float(np.max(np.abs(r1[i] - r2[i])))))
    # the same two operators then evaluate ANOTHER state (each conservative variable scaled by its own factor): the sources follow the state they are given
    fac = [1.3, 0.7, 1.9][:len(q)]
    qB = [f_ * np.asarray(x, dtype=float) for f_, x in zip(fac, q)]
    rB0 = [np.array(x, dtype=float, copy=True) for x in disc0.rhs(cases.build_field(model0, mesh0, [x.copy() for x in qB]))]
    rB1 = [np.array(x, dtype=float, copy=True) for x in disc1.rhs(cases.build_field(model1, mesh1, [x.copy() for x in qB]))]
    if all(np.all(np.isfinite(x)) for x in rB0 + rB1):
        for i, d in enumerate(src_full):
            if d is None:
                require(np.array_equal(rB1[i], rB0[i]), "none-source", "a None source entry changed equation %d (second state)" % i)
                continue
            SB = cases.source_value(d, xc, qB)
            tolB = 1e-12 * (np.abs(rB0[i]) + np.abs(SB)) + 1e-300
            errB = np.abs(rB1[i] - rB0[i] - SB)
            kB = int(np.argmax(errB - tolB))
            require(errB[kB] <= tolB[kB], "source-follows-state", "equation %d, cell %d: for a second state evaluated by the same operators, rhs_with - rhs_without = %r, source(x,Q) = %r"
                    % (i, kB, float((rB1[i] - rB0[i])[kB]), float(SB[kB])))
    for fn in (model1.source or []):
        cache = getattr(fn, "cache", None)
        if cache and "t" in cache:
            require(np.array_equal(cache["t"], cache["keep"]), "source-table-modified", "the array returned by a tabulated source function was modified by the operator")
    nsrc = sum(1 for d in src if d is not None)
    return dict(nontrivial=nsrc > 0, labels=["model:" + md["name"], "nsrc:%d" % nsrc, "short-list" if len(src) < len(r0) else "full-list", "num:" + case["num"]["name"], "bc:" + case["bcL"]["type"], "mesh:" + case["mesh"]["kind"]])


def _dsection(desc, x):
    """analytic derivative of the section law family (oracle)"""
    law = desc["law"]
    x = np.asarray(x, dtype=float)
    if law == "const":
        return 0.0 * x
    if law == "linear":
        return desc["A1"] + 0.0 * x
    if law == "tanh":
        return desc["A0"] * desc["amp"] / desc["w"] / np.cosh((x - desc["xm"]) / desc["w"]) ** 2
    if law == "gauss":
        z = (x - desc["xm"]) / desc["w"]
        return desc["A0"] * desc["amp"] * 2 * z / desc["w"] * np.exp(-z * z)
    if law == "poly":
        return desc["A0"] * desc["c1"] * 2 * (x - desc["xm"])
    raise ValueError(law)


def check_nozzle(case):
    md = case["model"]
    g = md.get("gamma", 1.4)
    emd = dict(name="euler1d", gamma=g)
    modelE, meshE, discE = _operator(emd, case, None)
    prim, xf = _prim(md, case, meshE)
    rE, q = _rhs(discE, modelE, meshE, emd, prim)
    if not all(np.all(np.isfinite(x)) for x in rE):
        sim.nonfinite_operator(case["num"])
    modelN, meshN, discN = _operator(md, case, None, reuse=case.get("reuse_model", False))
    rN, _ = _rhs(discN, modelN, meshN, md, prim)
    rho, u, p = prim
    E = q[2]
    Fv = [rho * u, rho * u * u, u * (E + p)]
    xc = 0.5 * (xf[1:] + xf[:-1])
    dx = xf[1:] - xf[:-1]
    A = cases.section_fn(md["section"])
    # admissible geometric factors: A'(x)/A(xc) for x in the cell (samples + the exact cell mean of A', which is one of its values)
    mean = (A(xf[1:]) - A(xf[:-1])) / dx / A(xc)
    lo, hi = mean.copy(), mean.copy()
    for t in np.linspace(0.0, 1.0, 33):
        val = _dsection(md["section"], xf[:-1] + t * dx) / A(xc)
        lo, hi = np.minimum(lo, val), np.maximum(hi, val)
    gmax = np.maximum(np.abs(lo), np.abs(hi))
    gerr = 1e-13 / dx * np.max(np.abs(A(xf))) / np.abs(A(xc))        # rounding of A(x+)-A(x-) (about 500 ulp of A)
    slack = 1e-9 * gmax + gerr
    diffs = [rN[i] - rE[i] for i in range(3)]
    rnd = [1e-12 * (np.abs(rE[i]) + np.abs(rN[i])) for i in range(3)]   # rounding of the difference of two residuals
    scale = [np.abs(rE[i]) + np.abs(Fv[i]) * gmax for i in range(3)]
    gfac = np.zeros(len(xc))
    moving = u != 0
    aF0 = np.where(moving, np.abs(Fv[0]), 1.0)
    gfac[moving] = -diffs[0][moving] / Fv[0][moving]
    gtol = rnd[0] / aF0                                                  # uncertainty of the factor read from the mass equation
    for i in range(3):
        err = np.abs(diffs[i] + gfac * Fv[i])
        tol = rnd[i] + np.abs(Fv[i]) * (gtol + 1e-12 * np.abs(gfac)) + 1e-300
        k = int(np.argmax(err - tol))
        require(err[k] <= tol[k], "nozzle-source-structure", "equation %d cell %d: nozzle - euler1d = %r but -g*(flux) = %r with g = %r from the mass equation" % (i, k, float(diffs[i][k]), float(-gfac[k] * Fv[i][k]), float(gfac[k])))
    bad = moving & ((gfac < lo - slack - gtol) | (gfac > hi + slack + gtol))
    if np.any(bad):
        k = int(np.argmax(bad))
        require(False, "nozzle-geometric-factor", "cell %d: geometric factor %r is not a value of A'/A(xc) inside the cell [%r, %r] (%s)" % (k, float(gfac[k]), float(lo[k]), float(hi[k]), md["section"]["law"]))
    if md["section"]["law"] == "const":
        for i in range(3):
            require(np.all(np.abs(diffs[i]) <= 1e-12 * np.abs(rE[i]) + 1e-300), "nozzle-constant-section", "constant section gives a non-zero geometric source on equation %d" % i)
    # invariance under A -> c A
    md2 = dict(md, section=_scaled(md["section"], case["scaleA"]))
    modelS, meshS, discS = _operator(md2, case, None)
    rS, _ = _rhs(discS, modelS, meshS, md2, prim)
    for i in range(3):
        require(np.all(np.abs(rS[i] - rN[i]) <= 1e-11 * scale[i] + rnd[i] + 2 * np.abs(Fv[i]) * gerr + 1e-300), "nozzle-scale-invariance", "rescaling the section law by %r changes equation %d" % (case["scaleA"], i))
    # state independence of the factor
    prim2, _ = _prim(md, case, meshE, key="state2")
    rE2, q2 = _rhs(discE, modelE, meshE, emd, prim2)
    rN2, _ = _rhs(discN, modelN, meshN, md, prim2)
    if all(np.all(np.isfinite(x)) for x in rE2):
        F2 = prim2[0] * prim2[1]
        both = moving & (prim2[1] != 0)
        g2 = np.zeros(len(xc))
        g2[both] = -(rN2[0] - rE2[0])[both] / F2[both]
        tol2 = 1e-12 * (np.abs(rE2[0]) + np.abs(rN2[0])) / np.where(both, np.abs(F2), 1.0) + gtol + 1e-10 * gmax + 1e-300
        require(np.all(np.abs(g2 - gfac)[both] <= tol2[both]), "nozzle-factor-state-independent", "the geometric factor depends on the state")
    nontrivial = md["section"]["law"] != "const" and bool(np.any(moving))
    return dict(nontrivial=nontrivial, labels=["law:" + md["section"]["law"], "num:" + case["num"]["name"], "mesh:" + case["mesh"]["kind"], "bc:" + case["bcL"]["type"],
                                               "model-reused" if case.get("reuse_model") else "model-fresh"])


def _scaled(sec, c):
    out = dict(sec)
    if sec["law"] == "const":
        out["A"] = sec["A"] * c
    elif sec["law"] == "linear":
        out["A0"], out["A1"] = sec["A0"] * c, sec["A1"] * c
    else:
        out["A0"] = sec["A0"] * c
    return out


SUBCHECKS = [
    SubCheck("sources", check_sources, strategy=strat_sources, examples={"quick": 400, "thorough": 2500}, shards={"quick": 4, "thorough": 16}),
    SubCheck("nozzle_geometric", check_nozzle, strategy=strat_nozzle, examples={"quick": 400, "thorough": 2000}, shards={"quick": 3, "thorough": 12}),
]

META = dict(
    level_text="Generated search over source lists (any subset None, position- and state-dependent functions), section laws, meshes, reconstructions, fluxes and boundary pairs; "
               "the operator with sources is compared with the operator without plus the oracle's evaluation of each source, and the nozzle's built-in terms with the flux "
               "vector times a per-cell geometric factor bounded by the analytic A'/A. Exploration only.",
    level_note="trusted: numpy; analytic derivatives of the section-law family; tolerance 1e-12 x (|rhs|+|S|)",
    technique="property-based testing (Hypothesis given): metamorphic relation with/without sources + differential against analytic source values",
)
