"""C04 - solutions converge to exact solutions at the design order.

(a) linear convection, smooth periodic data: observed order log2(e_n/e_2n) in L1 against the exactly translated profile (cell averages);
(b) Euler Riemann problems: L1 errors of density and pressure against the oracle's own exact Riemann solver decrease under refinement;
(c) the packaged reference solutions (flowdyn.solution) agree with the oracle's exact solver / with the nozzle-flow invariants.
"""
import math
from fractions import Fraction
import os

import numpy as np
from hypothesis import strategies as st

from vf import cases, gen, oracles
from vf.runner import Skip, SubCheck, require, target

RULE = ("(a) convection speed +/-10^[-0.5,0.5] x domain length x 1..3 waves x phase x end time 0.1..1 period x reconstruction (extrapol1/2/3, extrapolk(k), centered, fromm, quick, muscl x 4 "
        "limiters) x {rk3ssp, rk4; lsrk26bb, cranknicolson for order <= 2} on mesh triples 32k/64k/128k (first order and limited: 64k/128k/256k); (b) non-vacuum Riemann data with "
        "density/pressure ratios <= 10, |u| < c, gamma in {1.2,1.4,5/3} x {hlle,hllc} x {extrapol1: explicit/rk3ssp; muscl(limiter): rk2_heun/rk3ssp} on 100/200/400 cells, end time from the "
        "exact wave speeds; (c) generated Riemann data / nozzle pressure ratios for the packaged solutions. non-trivial = error above round-off and at least one wave with a jump > 5%; "
        "distinct = distinct canonical JSON")
ASSUMPTIONS = ["observed-order floors calibrated on the repaired tree (see DESIGN.md, C04): unlimited schemes p - 0.15; extrapol1 in [0.7, 1.3]; minmod >= 1.5, van Albada >= 1.7, van Leer >= 1.65, superbee >= 1.1 (all above "
               "the 0.99 a first-order scheme reaches)", "Riemann: e(2n) <= 1.05 e(n) pairwise (observed <= 0.91 over 3800 calibration cases) and e(4n) <= 0.85 e(n) (observed <= 0.67); problems where a discontinuity moves by less than 5 coarse cells are skipped (pre-asymptotic plateau)",
               "aerokit (third party) is only used through flowdyn.solution"]

K_OF = {"extrapol2": -1.0, "fromm": 0.0, "quick": 0.5, "extrapol3": 1.0 / 3.0, "centered": 1.0}
FLOOR_LIMITED = {"minmod": 1.5, "vanalbada": 1.7, "vanleer": 1.65, "superbee": 1.1}
CALIB = bool(os.environ.get("VERIF_C04_CALIB"))


# ---------------------------------------------------------------- (a) convection
def _order_of(num):
    if num["name"] == "extrapol1":
        return 1
    if num["name"] == "extrapol3" or (num["name"] == "extrapolk" and abs(num["k"] - 1.0 / 3.0) < 1e-12):
        return 3
    return 2


def strat_conv(tier):
    # one branch per design-order class, so that each class (in particular the only third-order scheme) gets a fixed share of the cases
    third = st.sampled_from([dict(name="extrapol3"), dict(name="extrapol3"), dict(name="extrapolk", k=1.0 / 3.0)])
    second = st.one_of(st.sampled_from([dict(name="extrapol2"), dict(name="centered"), dict(name="fromm"), dict(name="quick")]), st.builds(lambda k: dict(name="extrapolk", k=k), gen.f(-1, 1)))
    num = st.one_of(st.just(dict(name="extrapol1")), second, second, third, third, gen.num_muscl(), gen.num_muscl())
    return st.builds(lambda sg, ea, L, kw, ph, T, nm, integ, x0: dict(a=sg * 10 ** ea, length=L, k=kw, phase=ph, T=T, num=nm, integ=integ, x0=x0),
                     st.sampled_from([1.0, -1.0]), gen.f(-0.5, 0.5), gen.logf(-1, 1), st.integers(1, 3), gen.f(0, 1), gen.f(0.1, 1.0), num,
                     st.sampled_from(["rk3ssp", "rk4", "rk3ssp", "rk4", "lsrk26bb", "cranknicolson"]), st.one_of(st.just(0.0), gen.f(-1, 1)))


def _cellavg_sin(xf, kw, L, ph, shift):
    """exact cell averages of 1 + 0.5 sin(2 pi (kw (x - shift)/L + ph)) + 0.2 cos(2 pi (2 kw (x-shift)/L))"""
    w1 = 2 * math.pi * kw / L
    w2 = 2 * w1
    xl, xr = xf[:-1] - shift, xf[1:] - shift
    dx = xf[1:] - xf[:-1]
    i1 = (-np.cos(w1 * xr + 2 * math.pi * ph) + np.cos(w1 * xl + 2 * math.pi * ph)) / w1
    i2 = (np.sin(w2 * xr) - np.sin(w2 * xl)) / w2
    return 1.0 + (0.5 * i1 + 0.2 * i2) / dx


def _conv_error(case, n):
    a, L, x0 = case["a"], case["length"], case["x0"]
    md = dict(name="convection", a=a)
    model = cases.build_model(md)
    if case.get("refined"):
        r, za, zb = case["refined"]
        mesh = cases.build_mesh(dict(kind="refined", n=n, length=L, ratio=r, a=za, b=zb))
        x0 = 0.0
    else:
        mesh = cases.build_mesh(dict(kind="uni", n=n, length=L, x0=x0))
    xf = np.asarray(mesh.xf, dtype=float)
    disc = cases.build_disc(model, mesh, case["num"], None, {"type": "per"}, {"type": "per"})
    q0 = _cellavg_sin(xf, case["k"], L, case["phase"], 0.0)
    f = cases.build_field(model, mesh, [q0])
    T = case["T"] * L / abs(a) / case["k"]          # a fraction of the period of the fundamental wave
    integ = case["integ"]
    order = _order_of(case["num"])
    if integ in ("lsrk26bb", "cranknicolson") and order > 2:
        integ = "rk4"
    cfl = 0.4 if integ != "cranknicolson" else 0.25
    solver = cases.build_integrator(integ, mesh, disc)
    res = solver.solve(f, cfl, [T], stop={"maxit": int(20 * n * max(case["T"], 0.05) / cfl) + 100})
    require(len(res) == 1 and abs(res[0].time - T) <= 1e-9 * T, "convection-solve", "solve to T=%r returned %d snapshots (last time %r)" % (T, len(res), res[-1].time if len(res) else None))
    exact = _cellavg_sin(xf, case["k"], L, case["phase"], a * T)
    dx = xf[1:] - xf[:-1]
    return float(np.sum(dx * np.abs(np.asarray(res[0].data[0]) - exact)) / L), integ


def strat_conv_refined(tier):
    """the same study on two-zone (refined) meshes, incl. cell counts that do not split into whole zone counts: design order 1 (extrapol1) and 2 (all others)"""
    num = st.one_of(st.sampled_from([dict(name="extrapol1"), dict(name="extrapol2"), dict(name="extrapol3"), dict(name="fromm"), dict(name="quick")]),
                    st.builds(lambda k: dict(name="extrapolk", k=k), gen.f(-1, 0.6)))
    zones = st.sampled_from([[1, 1], [1, 2], [2, 1], [1, 3], [3, 2]])
    return st.builds(lambda sg, ea, L, ph, T, nm, integ, r, z, b: dict(a=sg * 10 ** ea, length=L, k=1, phase=ph, T=T, num=nm, integ=integ, x0=0.0, refined=[r, z[0], z[1]], base=b),
                     st.sampled_from([1.0, -1.0]), gen.f(-0.5, 0.5), st.one_of(gen.logf(-1, 1), gen.logf(-8, 2)), gen.f(0, 1), gen.f(0.3, 1.0), num, st.sampled_from(["rk3ssp", "rk4"]),
                     st.one_of(st.sampled_from([0.5, 2.0, 3.0]), gen.logf(-0.5, 0.5)), zones, st.sampled_from([40, 50, 64]))


def check_conv_refined(case):
    num = case["num"]
    p = 1 if num["name"] == "extrapol1" else 2
    ns = [case["base"], 2 * case["base"], 4 * case["base"]]
    errs = []
    for n in ns:
        e, integ = _conv_error(case, n)
        require(np.isfinite(e), "convection-finite", "non-finite error on a refined mesh of %d cells (%s, %s)" % (n, num, integ))
        errs.append(e)
    if errs[2] < 1e-12:
        return dict(nontrivial=False, labels=["error-at-roundoff"])
    o1 = math.log(errs[0] / errs[1], 2)
    o2 = math.log(errs[1] / errs[2], 2)
    target(-o2, "minus-order-refined:" + num["name"])
    target(-o1, "minus-order-refined-coarse:" + num["name"])
    if not CALIB:
        floor = FLOOR_REFINED[p]
        require(o2 >= floor, "order-refined-mesh", "%s on a two-zone mesh (ratio %.3g, zones %d:%d, a=%.3g, %s): observed L1 order %.3f on %d->%d cells, floor %.2f for design order %d (errors %r)"
                % (num, case["refined"][0], case["refined"][1], case["refined"][2], case["a"], case["integ"], o2, ns[1], ns[2], floor, p, errs))
        require(errs[1] <= 1.05 * errs[0] and errs[2] <= 1.05 * errs[1], "refined-monotone", "%s on a two-zone mesh: the L1 error does not decrease under refinement: %r" % (num, errs))
    frac = (Fraction(case["refined"][1]) * ns[0] / (case["refined"][1] + case["refined"][2])).denominator != 1
    return dict(nontrivial=True, labels=["num:" + num["name"], "a>0" if case["a"] > 0 else "a<0", "fractional-zone-split" if frac else "whole-zone-split"])


FLOOR_REFINED = {1: 0.6, 2: 1.7}      # calibrated over 960 cases: observed minima 0.75 (extrapol1), 1.93 (extrapol2, extrapolk), 1.99 (fromm), 2.01 (quick), 2.91 (extrapol3)


def check_conv(case):
    num = case["num"]
    p = _order_of(num)
    limited = num["name"] == "muscl"
    base = 32 if (p >= 2 and not limited) else 64
    ns = [base * case["k"], 2 * base * case["k"], 4 * base * case["k"]]
    errs = []
    for n in ns:
        e, integ = _conv_error(case, n)
        require(np.isfinite(e), "convection-finite", "non-finite error on %d cells (%s, %s)" % (n, num, integ))
        errs.append(e)
    name = num.get("limiter", num["name"])
    if errs[2] < 1e-12:
        return dict(nontrivial=False, labels=["error-at-roundoff"])
    o1 = math.log(errs[0] / errs[1], 2)
    o2 = math.log(errs[1] / errs[2], 2)
    target(-o2, "minus-order:" + name)
    if not CALIB:
        if limited:
            require(o2 >= FLOOR_LIMITED[num["limiter"]], "order-limited", "muscl/%s (%s, a=%.3g, %d waves, T=%.3g periods): observed L1 order %.3f on %d->%d cells, calibrated floor %.2f (errors %r)"
                    % (num["limiter"], integ, case["a"], case["k"], case["T"], o2, ns[1], ns[2], FLOOR_LIMITED[num["limiter"]], errs))
        elif p == 1:
            require(0.7 <= o2 <= 1.3, "order-first", "extrapol1 (%s): observed L1 order %.3f on %d->%d cells, expected about 1 (errors %r)" % (integ, o2, ns[1], ns[2], errs))
        else:
            require(o2 >= p - 0.15, "order-unlimited", "%s (%s, a=%.3g, %d waves, T=%.3g periods): observed L1 order %.3f on %d->%d cells, design order %d (errors %r)"
                    % (num, integ, case["a"], case["k"], case["T"], o2, ns[1], ns[2], p, errs))
            require(o1 >= p - 0.4, "order-unlimited-coarse", "%s (%s): observed L1 order %.3f on %d->%d cells, design order %d (errors %r)" % (num, integ, o1, ns[0], ns[1], p, errs))
    return dict(nontrivial=True, labels=["num:" + name, "integ:" + integ, "a>0" if case["a"] > 0 else "a<0", "order:%d" % p])


# ---------------------------------------------------------------- (b) Riemann problems
def strat_riemann(tier):
    gam = st.sampled_from([1.2, 1.4, 5.0 / 3.0])
    ratio = st.one_of(gen.f(-math.log(10), math.log(10)), st.sampled_from([0.0, math.log(8.0), -math.log(8.0)]))
    scheme = st.one_of(st.builds(lambda i: (dict(name="extrapol1"), i, 0.5), st.sampled_from(["explicit", "rk3ssp"])),
                       st.builds(lambda l, i: (dict(name="muscl", limiter=l), i, 0.4), st.sampled_from(gen.LIMITERS), st.sampled_from(["rk2_heun", "rk3ssp"])))
    general = st.builds(lambda g, lr, lp, mL, mR, fl, sch, sc_r, sc_p: dict(gamma=g, lnr=lr, lnp=lp, mL=mL, mR=mR, flux=fl, num=sch[0], integ=sch[1], cfl=sch[2], rho0=sc_r, p0=sc_p),
                        gam, ratio, ratio, gen.f(-0.9, 0.9), gen.f(-0.9, 0.9), st.sampled_from(["hlle", "hllc"]), scheme, gen.logf(-1, 1), gen.logf(-1, 1))
    # transonic rarefactions (both states subsonic, sonic point inside the fan): a common velocity of 0.55..0.95 c towards the low-pressure side
    def trans(g, lr, lp, m, sgn, fl, sch, sc_r, sc_p):
        # sgn = +1: high pressure on the left, flow to the right (left rarefaction); -1: mirror image
        return dict(gamma=g, lnr=-sgn * lr, lnp=-sgn * lp, mL=sgn * m, mR=sgn * m, flux=fl, num=sch[0], integ=sch[1], cfl=sch[2], rho0=sc_r, p0=sc_p)
    transonic = st.builds(trans, gam, gen.f(0.7, 2.3), gen.f(0.7, 2.3), gen.f(0.55, 0.95), st.sampled_from([1.0, -1.0]), st.sampled_from(["hlle", "hllc"]), scheme, gen.logf(-1, 1), gen.logf(-1, 1))
    return st.one_of(general, general, transonic)


FAN_RATIO = 0.75       # calibrated over 3800 cases (three seeds): observed <= 0.57 (first order, sonic point in the fan: the vanishing 'sonic glitch'), <= 0.37 otherwise
FAN_STEP = 4.0         # largest jump on 400 cells x number of cells in the fan, in units of the fan's range: 1 for a linear fan, observed <= 2.2


def _riemann_states(case):
    g = case["gamma"]
    rl, pl = case["rho0"], case["p0"]
    rr, pr = rl * math.exp(case["lnr"]), pl * math.exp(case["lnp"])
    ul = case["mL"] * math.sqrt(g * pl / rl)
    ur = case["mR"] * math.sqrt(g * pr / rr)
    return (rl, ul, pl), (rr, ur, pr)


def _riemann_error(case, n, T, exact):
    g = case["gamma"]
    L, R = _riemann_states(case)
    md = dict(name="euler1d", gamma=g)
    model = cases.build_model(md)
    mesh = cases.build_mesh(dict(kind="uni", n=n, length=1.0, x0=-0.5))
    xf = np.asarray(mesh.xf, dtype=float)
    xc = 0.5 * (xf[1:] + xf[:-1])
    disc = cases.build_disc(model, mesh, case["num"], case["flux"], {"type": "dirichlet", "prim": list(L)}, {"type": "dirichlet", "prim": list(R)})
    prim = [np.where(xc < 0, L[k], R[k]) for k in range(3)]
    f = cases.build_field(model, mesh, cases.cons_from_prim(md, prim))
    solver = cases.build_integrator(case["integ"], mesh, disc)
    # the fan covers 0.35 of the domain at the fastest wave speed: ~0.35 n / CFL iterations.  An iteration limit 20x that turns a run that never reaches T
    # (e.g. a non-finite time step) into a reported failure instead of a hang
    res = solver.solve(f, case["cfl"], [T], stop={"maxit": int(20 * n / case["cfl"]) + 100})
    require(len(res) == 1 and abs(res[0].time - T) <= 1e-9 * T, "riemann-solve", "solve to T=%r on %d cells returned %d snapshots within %d iterations: the run does not reach the requested time (%s/%s/%s)"
            % (T, n, len(res), int(20 * n / case["cfl"]) + 100, case["flux"], case["num"].get("limiter", case["num"]["name"]), case["integ"]))
    num = cases.prim_from_cons(md, res[0].data)
    require(all(np.all(np.isfinite(x)) for x in num), "riemann-finite", "non-finite solution on %d cells (%s/%s/%s)" % (n, case["flux"], case["num"], case["integ"]))
    # exact cell averages approximated by 4-point sampling inside each cell (self-similar solution)
    er = ep = 0.0
    dx = 1.0 / n
    rho_e = np.zeros(n)
    p_e = np.zeros(n)
    for off in (-0.375, -0.125, 0.125, 0.375):
        r_, _u, p_ = exact.sample((xc + off * dx) / T)
        rho_e += 0.25 * r_
        p_e += 0.25 * p_
    er = float(np.sum(np.abs(num[0] - rho_e)) * dx)
    ep = float(np.sum(np.abs(num[2] - p_e)) * dx)
    return er, ep, _fan_jumps(exact, xc / T, np.asarray(num[0], dtype=float), dx / T)


def _fans(exact):
    """(head, tail, density at head, density at tail, contains a sonic point) of every rarefaction fan, in similarity coordinates"""
    g = exact.g
    out = []
    if exact.ps <= exact.pl:
        cs = exact.cl * (exact.ps / exact.pl) ** ((g - 1.0) / (2.0 * g))
        head, tail = exact.ul - exact.cl, exact.us - cs
        out.append((head, tail, exact.rl, exact.rl * (exact.ps / exact.pl) ** (1.0 / g), head < 0.0 < tail))
    if exact.ps <= exact.pr:
        cs = exact.cr * (exact.ps / exact.pr) ** ((g - 1.0) / (2.0 * g))
        head, tail = exact.ur + exact.cr, exact.us + cs
        out.append((tail, head, exact.rr * (exact.ps / exact.pr) ** (1.0 / g), exact.rr, tail < 0.0 < head))
    return out


def _fan_jumps(exact, xi, rho, dxi):
    """largest cell-to-cell density jump strictly inside each rarefaction fan (two cells away from its edges), relative to the density range of the fan.
    The exact solution is smooth there, so this is O(dx) for a convergent scheme; an expansion shock (entropy violation) keeps it O(1)."""
    res = []
    for lo, hi, ra, rb, sonic in _fans(exact):
        rng = abs(rb - ra)
        inside = (xi > lo + 2 * dxi) & (xi < hi - 2 * dxi)
        idx = np.nonzero(inside[:-1] & inside[1:])[0]
        if rng <= 0 or len(idx) < 4:
            res.append(None)
            continue
        res.append((float(np.max(np.abs(rho[idx + 1] - rho[idx]))) / rng, len(idx), sonic, rng / max(ra, rb)))
    return res


def check_riemann(case):
    g = case["gamma"]
    L, R = _riemann_states(case)
    try:
        exact = oracles.ExactRiemann(g, L, R)
    except ValueError:
        raise Skip("vacuum-generating data")
    sl, sm, sr = exact.wave_speeds()
    smax = max(abs(sl), abs(sr), 1e-12)
    T = 0.35 / smax            # the fan fills 70% of the half-width on its faster side
    jumps = [abs(exact.ps / L[2] - 1), abs(exact.ps / R[2] - 1), abs(math.log(R[0] / L[0]))]
    # a discontinuity that has moved by less than 5 cells of the coarsest mesh is not resolved there: the error is then the sub-cell offset of the
    # exact position (a plateau, then jitter), not a discretisation error - such problems are outside the asymptotic statement
    rsl, _u, _p = exact.sample(np.array([sm - 1e-9 * smax]))
    rsr, _u, _p = exact.sample(np.array([sm + 1e-9 * smax]))
    slow = []
    if abs(math.log(float(rsr[0]) / float(rsl[0]))) > 0.05:
        slow.append(abs(sm) * T)
    if exact.ps > L[2] * 1.05:
        slow.append(abs(sl) * T)
    if exact.ps > R[2] * 1.05:
        slow.append(abs(sr) * T)
    if any(0.0 < d < 0.05 for d in slow):
        raise Skip("a discontinuity moves by less than 5 cells of the coarsest mesh (pre-asymptotic)")
    errs = [_riemann_error(case, n, T, exact) for n in (100, 200, 400)]
    scale_r, scale_p = max(L[0], R[0]), max(L[2], R[2])
    name = case["num"].get("limiter", case["num"]["name"])
    labels = ["pattern:" + exact.pattern(), "flux:" + case["flux"], "num:" + name, "integ:" + case["integ"], "gamma:%.3g" % g]
    if max(jumps) < 0.05 or errs[0][0] < 1e-10 * scale_r:
        return dict(nontrivial=False, labels=labels + ["degenerate"])
    for which, idx, sc in (("density", 0, scale_r), ("pressure", 1, scale_p)):
        e1, e2, e4 = errs[0][idx], errs[1][idx], errs[2][idx]
        if e1 < 1e-9 * sc:
            continue
        target(e2 / e1, "riemann-ratio-2n:" + name)
        target(e4 / e1, "riemann-ratio-4n:" + name)
        target(e4 / sc, "riemann-relerr-400:" + ("first" if name == "extrapol1" else "muscl") + ":" + which)
        if CALIB:
            continue
        require(e2 <= 1.05 * e1 and e4 <= 1.05 * e2, "riemann-monotone", "%s L1 error does not decrease under refinement: %.4g (100) %.4g (200) %.4g (400) (%s/%s/%s, gamma=%g, pattern %s, L=%r R=%r)"
                % (which, e1, e2, e4, case["flux"], name, case["integ"], g, exact.pattern(), L, R))
        require(e4 <= 0.85 * e1, "riemann-converges", "%s L1 error on 400 cells (%.4g) is not below 0.85 x the error on 100 cells (%.4g) (%s/%s/%s, gamma=%g, pattern %s)"
                % (which, e4, e1, case["flux"], name, case["integ"], g, exact.pattern()))
    # rarefactions are captured as rarefactions: inside a fan the numerical solution becomes continuous under refinement (no expansion shock)
    for k, (j1, j4) in enumerate(zip(errs[0][2], errs[2][2])):
        if j1 is None or j4 is None or j1[1] < 6 or j1[3] < 0.05:
            continue
        labels.append("fan-with-sonic-point" if j1[2] else "fan")
        target(j4[0] / j1[0], "fan-jump-ratio-400/100:" + ("sonic" if j1[2] else "plain") + ":" + ("first" if name == "extrapol1" else "muscl"))
        target(j4[0] * j4[1], "fan-jump-400 x cells-in-fan:" + ("sonic" if j1[2] else "plain") + ":" + ("first" if name == "extrapol1" else "muscl"))
        if CALIB:
            continue
        require(j4[0] * j4[1] <= FAN_STEP, "rarefaction-is-resolved", "largest cell-to-cell density jump inside rarefaction fan %d on 400 cells is %.3g of the fan's range although %d cells lie in the fan "
                "(expansion shock?) (%s/%s/%s, gamma=%g, pattern %s, L=%r R=%r)" % (k, j4[0], j4[1], case["flux"], name, case["integ"], g, exact.pattern(), L, R))
        require(j4[0] <= FAN_RATIO * j1[0], "rarefaction-is-continuous", "largest cell-to-cell density jump inside rarefaction fan %d: %.3g of the fan's range on 100 cells, %.3g on 400 cells: it does not "
                "vanish under refinement (expansion shock?) (%s/%s/%s, gamma=%g, pattern %s, L=%r R=%r)" % (k, j1[0], j4[0], case["flux"], name, case["integ"], g, exact.pattern(), L, R))
    return dict(nontrivial=True, labels=sorted(set(labels)))


# ---------------------------------------------------------------- (c) packaged reference solutions
def strat_packaged(tier):
    ratio = gen.f(-math.log(10), math.log(10))
    return st.builds(lambda g, lr, lp, mL, mR, t, n: dict(gamma=g, lnr=lr, lnp=lp, mL=mL, mR=mR, rho0=1.0, p0=1.0, t=t, n=n),
                     st.sampled_from([1.2, 1.4, 5.0 / 3.0]), ratio, ratio, gen.f(-0.9, 0.9), gen.f(-0.9, 0.9), gen.logf(-1, 0), st.integers(10, 60))


def check_packaged(case):
    import flowdyn.solution.euler_riemann as sol
    g = case["gamma"]
    L, R = _riemann_states(case)
    try:
        exact = oracles.ExactRiemann(g, L, R)
    except ValueError:
        raise Skip("vacuum-generating data")
    model = cases.build_model(dict(name="euler1d", gamma=g))
    mesh = cases.build_mesh(dict(kind="uni", n=case["n"], length=2.0, x0=-1.0))
    pb = sol.riemann(model, list(L), list(R))
    t = case["t"]
    rho, u, p = pb.primdata(mesh, t)
    xc = np.asarray(mesh.centers(), dtype=float)
    xi = xc / t
    r_e, u_e, p_e = exact.sample(xi)
    # cells whose centre sits within 1e-6 of a discontinuity are not compared
    sl, sm, sr = exact.wave_speeds()
    disc = [sm] + ([sl] if exact.ps > L[2] else []) + ([sr] if exact.ps > R[2] else [])
    ok = np.ones(len(xi), dtype=bool)
    for s_ in disc:
        ok &= np.abs(xi - s_) > 1e-6 * (1 + abs(s_))
    c = max(math.sqrt(g * L[2] / L[0]), math.sqrt(g * R[2] / R[0]))
    for nm, a, b, sc in (("density", rho, r_e, max(L[0], R[0])), ("velocity", u, u_e, c), ("pressure", p, p_e, max(L[2], R[2]))):
        a = np.asarray(a, dtype=float)
        require(a.shape == b.shape, "packaged-shape", "packaged Riemann solution returns %s of shape %r" % (nm, a.shape))
        e = float(np.max(np.abs(a[ok] - b[ok]))) / sc if np.any(ok) else 0.0
        require(e <= 1e-8, "packaged-riemann", "packaged Riemann solution: %s differs from the independent exact solver by %.3g (relative; gamma=%g, L=%r, R=%r, t=%g)" % (nm, e, g, L, R, t))
    # an object that has already been sampled at other times (and on another mesh) answers the same
    pb2 = sol.riemann(model, list(L), list(R))
    other = cases.build_mesh(dict(kind="uni", n=case["n"] + 3, length=1.0, x0=-0.25))
    pb2.primdata(other, 0.37 * t)
    pb2.fdata(mesh, 2.0 * t)
    for nm, a, b in zip(("density", "velocity", "pressure"), pb2.primdata(mesh, t), (rho, u, p)):
        require(np.array_equal(np.asarray(a, dtype=float), np.asarray(b, dtype=float), equal_nan=True), "packaged-riemann-object-reuse",
                "packaged Riemann solution: %s at t=%g from an object already sampled at other times differs from a fresh object" % (nm, t))
    # cons data / field use the same primitives
    f = pb.fdata(mesh, t)
    q_ref = cases.cons_from_prim(dict(name="euler1d", gamma=g), [np.asarray(rho), np.asarray(u), np.asarray(p)])
    for a, b in zip(f.data, q_ref):
        require(np.allclose(a, b, rtol=1e-12, atol=0), "packaged-fdata", "riemann.fdata is not prim2cons(primdata)")
    return dict(nontrivial=bool(max(abs(exact.ps / L[2] - 1), abs(exact.ps / R[2] - 1)) > 0.05), labels=["pattern:" + exact.pattern()])


def strat_nozzle(tier):
    # prior: NPR values the SAME solution object was set to before the judged one (documented use: one object, set_NPR() in a loop)
    return st.builds(lambda g, npr, ar, n, prior: dict(gamma=g, npr=npr, ar=ar, n=n, prior=prior), st.sampled_from([1.4, 1.4, 1.4, 1.3, 1.35]), gen.f(1.02, 3.0), gen.f(1.2, 3.0), st.integers(40, 120),
                     st.lists(gen.f(1.02, 3.0), min_size=0, max_size=2))


def check_nozzle(case):
    import flowdyn.solution.euler_nozzle as soln
    g = case["gamma"]
    n = case["n"]
    x = (np.arange(n) + 0.5) / n
    # converging-diverging section with throat at x = 0.4 and exit/throat area ratio ar
    ar = case["ar"]
    sec = 1.0 + (ar - 1.0) * ((x - 0.4) / 0.6) ** 2 * (x >= 0.4) + (1.5 - 1.0) * ((0.4 - x) / 0.4) ** 2 * (x < 0.4)
    model = cases.build_model(dict(name="euler1d", gamma=g))
    try:
        noz = soln.nozzle(model, sec, NPR=case["npr"])
    except Exception as e:      # third-party solver may refuse a regime
        raise Skip("aerokit nozzle solver refuses this regime: %s" % type(e).__name__)
    rho, u, p = [np.array(v, dtype=float, copy=True) for v in noz.primdata()]
    # the same solution from an object that was first set to other pressure ratios: set_NPR() must not depend on what the object computed before
    prior = case.get("prior") or []
    if prior:
        try:
            used = soln.nozzle(model, sec, NPR=prior[0])
            for q in prior[1:]:
                used.set_NPR(q)
            used.set_NPR(case["npr"])
            again = [np.asarray(v, dtype=float) for v in used.primdata()]
        except Exception as e:
            raise Skip("aerokit nozzle solver refuses a regime of the preliminary sequence: %s" % type(e).__name__)
        for nm, a, b in zip(("density", "velocity", "pressure"), again, (rho, u, p)):
            require(np.array_equal(a, b, equal_nan=True), "nozzle-object-reuse", "packaged nozzle solution: %s after set_NPR(%s) then set_NPR(%g) on one object differs from a fresh object at NPR %g by %.3g"
                    % (nm, ", ".join("%g" % q for q in prior), case["npr"], case["npr"], float(np.nanmax(np.abs(a - b))) if np.any(np.isfinite(a - b)) else float("nan")))
    if not (np.all(np.isfinite(rho)) and np.all(np.isfinite(u)) and np.all(np.isfinite(p))):
        raise Skip("aerokit nozzle solution not finite for this regime")
    mach = u / np.sqrt(g * p / rho)
    # total enthalpy (r Tt) is uniform, mass flow rho u A is uniform on each side of a shock, total pressure only drops across a shock
    rtt = p / rho * (1 + 0.5 * (g - 1) * mach ** 2)
    require(float(np.max(np.abs(rtt / rtt[0] - 1))) <= 1e-8, "nozzle-total-enthalpy", "packaged nozzle solution: total temperature varies by %.3g" % float(np.max(np.abs(rtt / rtt[0] - 1))))
    mdot = rho * u * sec
    pt = p * (1 + 0.5 * (g - 1) * mach ** 2) ** (g / (g - 1))
    # locate a shock: supersonic -> subsonic jump downstream of the throat
    jump = [i for i in range(1, n) if mach[i - 1] > 1.0 and mach[i] < 1.0]
    segs = [(0, n)] if not jump else [(0, jump[0]), (jump[0], n)]
    for a, b in segs:
        if b - a >= 2:
            require(float(np.max(np.abs(pt[a:b] / pt[a] - 1))) <= 1e-8, "nozzle-total-pressure", "packaged nozzle solution: total pressure varies by %.3g inside a shock-free segment" % float(np.max(np.abs(pt[a:b] / pt[a] - 1))))
    # mass flow: the section array is sampled, so conservation holds at sampling accuracy of the solver's own inversion
    require(float(np.max(np.abs(mdot / mdot[0] - 1))) <= 1e-6, "nozzle-massflow", "packaged nozzle solution: mass flow varies by %.3g" % float(np.max(np.abs(mdot / mdot[0] - 1))))
    if jump:
        m1 = mach[jump[0] - 1]
        # total pressure ratio across a normal shock at the upstream Mach number actually sampled is between the ratios of the neighbouring Mach numbers
        def ptr(m):
            return (((g + 1) * m * m / ((g - 1) * m * m + 2)) ** (g / (g - 1))) * ((g + 1) / (2 * g * m * m - (g - 1))) ** (1 / (g - 1))
        got = pt[jump[0]] / pt[jump[0] - 1]
        lo, hi = ptr(max(mach[max(jump[0] - 2, 0):jump[0] + 1].max(), m1) * 1.15), 1.0
        require(lo - 1e-6 <= got <= hi + 1e-9, "nozzle-shock-loss", "packaged nozzle solution: total pressure ratio across the shock %.6f is not a normal-shock loss for a Mach number near %.3f" % (got, m1))
    if mach[-1] < 1.0:       # with a supersonic exit the exit pressure is not the back pressure the NPR refers to
        require(abs(p[-1] * case["npr"] / pt[0] - 1) <= 1e-6, "nozzle-npr",         "packaged nozzle solution: inlet ptot / outlet p = %.6f, requested NPR %.6f" % (pt[0] / p[-1], case["npr"]))
    return dict(nontrivial=True, labels=["gamma:%g" % g, "shock" if jump else "no-shock", "choked" if np.max(mach) >= 0.999 else "subsonic", "object-reused" if prior else "fresh-object"])


def match_d17(case, failure):
    """known finding D17: packaged nozzle solution for gamma != 1.4 (aerokit's isentropic / mass-flow functions keep their gamma=1.4 default)"""
    return failure.sub == "packaged_nozzle" and abs(case.get("gamma", 1.4) - 1.4) > 1e-12 and failure.predicate != "nozzle-object-reuse"


SUBCHECKS = [
    SubCheck("convection_order", check_conv, strategy=strat_conv, examples={"quick": 40, "thorough": 150}, shards={"quick": 8, "thorough": 16}),
    SubCheck("convection_order_refined", check_conv_refined, strategy=strat_conv_refined, examples={"quick": 8, "thorough": 60}, shards={"quick": 6, "thorough": 16}),
    SubCheck("riemann_convergence", check_riemann, strategy=strat_riemann, examples={"quick": 12, "thorough": 80}, shards={"quick": 8, "thorough": 16}),
    SubCheck("packaged_riemann", check_packaged, strategy=strat_packaged, examples={"quick": 100, "thorough": 600}, shards={"quick": 2, "thorough": 8}),
    SubCheck("packaged_nozzle", check_nozzle, strategy=strat_nozzle, examples={"quick": 150, "thorough": 600}, shards={"quick": 2, "thorough": 8}),
]

META = dict(
    level_text="Generated search over wave numbers, phases, speeds, end times, reconstructions and integrators (convection: observed L1 order on mesh triples against exact cell averages) and "
               "over non-vacuum Riemann data, fluxes, limiters and SSP integrators (L1 error of density/pressure against the oracle's exact Riemann solver on 100/200/400 cells); the "
               "packaged solutions are compared with the same oracle / with nozzle-flow invariants. Asymptotic statements are decided at finite resolution with calibrated floors.",
    level_note="trusted: numpy; exact Riemann solver in vf/oracles.py (Toro); analytic cell averages of the translated profile; calibrated order floors",
    technique="property-based testing (Hypothesis given): convergence-order measurement and differential testing against an independent exact solver",
)
