"""C08 - solve is pure: repeatable, unaffected by saving, monitoring or restart.

Model-based testing over generated call histories on ONE solver object.  The history (a list of solve / restart calls with generated fields,
iteration counts, save-time lists and monitor dictionaries) is generated as data, interpreted against the real solver, and after every call
the result is compared with the model: a FRESH solver object stepping the same field (calc_timestep -> step), which is what
"the state after N iterations depends only on the initial field, the discretisation, the integrator type and the CFL number" means.
(The whole history shrinks as one value and is the JSON replay file; Hypothesis' RuleBasedStateMachine would give the same search but no
plain-data replay, see DESIGN.md.)
"""
import numpy as np
from hypothesis import strategies as st

from vf import cases, gen, sim
from vf.runner import Skip, SubCheck, require, target

RULE = ("history = problem (convection: linear, cached Jacobian; burgers; euler1d; 2..8 periodic cells) x integrator (every class incl. gear) x CFL x optional constructor-level monitors x "
        "1..5 calls on one solver object, each solve(field_i from a pool of 3, N<=6, optional save-time list, optional per-call monitors of both types with frequency 1..7, optional "
        "immediate repeat) or restart(M<=5) from the last returned final field. non-trivial = >= 2 calls of which >= 1 has save times or monitors; distinct = distinct canonical JSON")
ASSUMPTIONS = ["bit-identical comparison for explicit integrators and for implicit ones on nonlinear models; for implicit x linear model the Jacobian is legitimately cached from the first field "
               "the object saw, so comparisons ACROSS objects use 1e-7 relative while comparisons on one object stay bitwise",
               "duplicate monitor records at a restart junction and accumulation of constructor-level monitor outputs are not judged (the property does not speak about them)",
               "data_average monitors only for models that register variables (Burgers registers none)"]


def _problem():
    conv = st.builds(lambda md, n: (md, None, "convection", n), gen.model_convection(), st.integers(2, 8))
    burg = st.builds(lambda n: (dict(name="burgers"), None, "burgers", n), st.integers(2, 8))
    eul = st.builds(lambda md, fl, n: (md, fl, "euler1d", n), gen.model_euler1d(), st.sampled_from(["hlle", "hllc"]), st.integers(2, 8))
    e2d = st.builds(lambda md, fl, nx, ny: (md, fl, "euler2d", (nx, ny)), gen.model_euler2d(), st.sampled_from(["hlle", "centered"]), st.integers(2, 3), st.integers(2, 3))
    return st.one_of(conv, burg, eul, eul, e2d)


def _fields(kind):
    if kind == "convection":
        return st.lists(gen.state_scalar(True, -2.0, 2.0, special=False), min_size=3, max_size=3)
    if kind == "burgers":
        # smooth-ish data, or isolated fast cells over a slow background (the CFL time step then changes by large factors between consecutive iterations)
        return st.lists(st.one_of(gen.state_scalar(True, 0.3, 2.0, special=False), gen.state_burgers_spiky()), min_size=3, max_size=3)
    if kind == "euler2d":
        return st.lists(gen.state_euler2d(False, lnrange=0.4, machmax=1.0, smooth_amp=0.1), min_size=3, max_size=3)
    return st.lists(gen.state_euler(False, lnrange=0.5, machmax=1.2, smooth_amp=0.1), min_size=3, max_size=3)


def _monitors(kind):
    names = {"convection": ["q"], "burgers": [], "euler1d": ["density", "pressure", "mach", "massflow"], "euler2d": ["density", "pressure", "mach"]}[kind]
    res = st.builds(lambda f: {"residual": {"frequency": f}}, st.integers(1, 7))
    res_t = st.builds(lambda f: {"myres": {"type": "residual", "frequency": f}}, st.integers(1, 7))
    opts = [st.none(), res, res_t]
    if names:
        avg = st.builds(lambda nm, f: {"avg": {"type": "data_average", "data": nm, "frequency": f}}, st.sampled_from(names), st.integers(1, 7))
        both = st.builds(lambda nm, f, f2: {"avg": {"type": "data_average", "data": nm, "frequency": f}, "residual": {"frequency": f2}}, st.sampled_from(names), st.integers(1, 7), st.integers(1, 7))
        opts += [avg, both]
    return st.one_of(*opts)


def strat(tier):
    ex, im = cases.integrator_names()

    def hist(pr):
        md, fl, kind, n = pr
        cidx = st.sampled_from([0, 0, 1])          # CFL number of the call (two values per history: results must not depend on what earlier calls used)
        solve = st.builds(lambda i, N, sv, mon, rep, ci: dict(op="solve", field=i, N=N, saves=sv, mon=mon, repeat=rep, cfl=ci), st.integers(0, 2), st.integers(1, 6),
                          st.one_of(st.none(), st.lists(gen.f(0.02, 0.98), min_size=1, max_size=4)), _monitors(kind), st.booleans(), cidx)
        restart = st.builds(lambda M, mon, ci: dict(op="restart", M=M, mon=mon, cfl=ci), st.integers(1, 5), _monitors(kind), cidx)
        def mk(L, num, integ, cfl, cfl2, fields, ctor, calls, shared, dtl=False):
            d = dict(model=md, flux=fl, num=num, integ=integ, cfl=cfl, cfl2=cfl2, fields=fields, ctor_mon=ctor, calls=calls, shared_stop=shared, dtlocal=dtl)
            if kind == "euler2d":
                d["mesh2d"] = dict(nx=n[0], ny=n[1], lx=L, ly=1.0)
                d["num"] = dict(name="extrapol2d1") if num["name"] != "extrapol3" else dict(name="extrapol2dk", k=1.0 / 3.0)
                if cases.is_implicit(integ):
                    d["integ"] = "rk3ssp"        # implicit integrators do not support the vector momentum of euler2d
            else:
                d["mesh"] = dict(kind="uni", n=n, length=L, x0=0.0)
            return d
        return st.builds(mk,
                         st.one_of(gen.logf(-1, 1), gen.logf(-1, 1), gen.logf(-9, 3)), st.sampled_from([dict(name="extrapol1"), dict(name="extrapol3"), dict(name="muscl", limiter="minmod")]),
                         st.sampled_from(ex + im + ["gear", "gear"]), gen.f(0.1, 0.8), gen.f(0.1, 0.8), _fields(kind), st.booleans(), st.builds(lambda first, rest: [first] + rest, solve, st.lists(st.one_of(solve, solve, restart), min_size=1, max_size=4)),
                         st.booleans(), st.sampled_from([False, False, True]))
    return _problem().flatmap(hist)


class Chain(object):
    """reference computation: a FRESH solver object of the same class stepping a field (calc_timestep -> step); a restart continues the chain
    (same object, so a multistep history carries over exactly as restart() promises), possibly with another CFL number"""

    def __init__(self, P, integ, field, dtlocal=False):
        self.P = P
        self.dtlocal = dtlocal
        self.solver = cases.build_integrator(integ, P.mesh, P.disc)
        self.states = [field.copy()]

    def advance(self, cfl, k):
        for _ in range(k):
            g = self.states[-1].copy()
            sim.advance(self.solver, self.P.disc, g, cfl, dtlocal=self.dtlocal)
            self.states.append(g)
        return self.states


def _blown_up(states):
    """an unstable configuration (e.g. per-cell time steps on spiky data with a high-order scheme): the solution grows by orders of magnitude and the time steps collapse,
    iteration counts up to a given time are then a matter of round-off.  Not judged."""
    m0 = max(float(np.max(np.abs(d))) for d in states[0].data)
    return any((not np.all(np.isfinite(d))) or float(np.max(np.abs(d))) > 100.0 * m0 for s_ in states for d in s_.data)


def _eq(a, b, tol):
    """a, b fields; tol None -> bitwise"""
    if tol is None:
        return all(np.array_equal(x, y) for x, y in zip(a.data, b.data)) and a.time == b.time
    for x, y in zip(a.data, b.data):
        sc = float(np.max(np.abs(y))) + 1e-300
        if not np.all(np.abs(np.asarray(x) - np.asarray(y)) <= tol * sc):
            return False
    return abs(a.time - b.time) <= tol * max(abs(b.time), 1e-300)


def _diff(a, b):
    return max(float(np.max(np.abs(np.asarray(x) - np.asarray(y)))) for x, y in zip(a.data, b.data))


def _l2res(P, state):
    r = [np.asarray(x, dtype=float) for x in P.disc.rhs(state.copy())]
    vol = P.dxf
    avg = [np.sqrt(np.sum(vol * x * x) / np.sum(vol)) for x in r]
    return float(np.sqrt(np.mean(np.square(avg))))


def _avg(P, state, name, md, with_scale=False):
    vol = P.dxf
    if md["name"] == "convection":
        v = state.data[0]
    else:
        from vf import oracles
        prim = cases.prim_from_cons(md, state.data)
        ref = oracles.gas_vars(md.get("gamma", 1.4), prim[0], prim[1], prim[2])
        if md["name"] == "euler2d":
            ref["mach"] = np.sqrt(ref["mach2"])
        else:
            ref["massflow"] = prim[0] * prim[1]
            ref["mach"] = prim[1] / np.sqrt(md.get("gamma", 1.4) * prim[2] / prim[0])
        v = ref[name]
    if with_scale:
        return float(np.sum(vol * v) / np.sum(vol)), float(np.sum(vol * np.abs(v)) / np.sum(vol)) + 1e-300
    return float(np.sum(vol * v) / np.sum(vol))


def _copy_mon(mon):
    return None if mon is None else {k: dict(v) for k, v in mon.items()}


class _NewRecords(object):
    """the records a constructor-level monitor gained during one call (such monitors live as long as the solver and accumulate over its computations)"""

    def __init__(self, out, start):
        self._it = list(out._it)[start:]
        self._time = list(out._time)[start:]
        self._value = list(out._value)[start:]


def _ctor_len(ctor):
    return {k: (len(v["output"]._it) if "output" in v else 0) for k, v in (ctor or {}).items()}


def _judge_ctor(P, md, ctor, before, states, it0, what):
    if not ctor:
        return
    view = {}
    for k, v in ctor.items():
        d = {kk: vv for kk, vv in v.items() if kk != "output"}
        if "output" in v:
            d["output"] = _NewRecords(v["output"], before.get(k, 0))
        view[k] = d
    _judge_monitors(P, md, view, states, it0, what + " [monitor given to the solver's constructor: records added by this call]")


def _judge_monitors(P, md, mon, states, it0, what):
    """per-call monitor dictionaries: exactly the iterations it0..it0+N that are multiples of the frequency, with the time/value of the state at that iteration"""
    if mon is None:
        return
    N = len(states) - 1
    for key, par in mon.items():
        f = par.get("frequency", 10)
        expect = [it for it in range(it0, it0 + N + 1) if it % f == 0]
        if "output" not in par:
            require(expect == [], "monitor-output", "%s: monitor %r (frequency %d) has no output although iterations %r are multiples of its frequency" % (what, key, f, expect))
            continue
        out = par["output"]
        its = list(out._it)
        require(its == expect, "monitor-iterations", "%s: monitor %r (frequency %d) recorded iterations %r, expected %r" % (what, key, f, its, expect))
        mtype = par.get("type", key)
        for it, t, v in zip(out._it, out._time, out._value):
            s_ = states[it - it0]
            require(abs(t - s_.time) <= 1e-12 * max(abs(s_.time), 1e-300), "monitor-time", "%s: monitor %r at iteration %d has time %r, the state at that iteration has %r" % (what, key, it, t, s_.time))
            if mtype == "residual" and md["name"] == "euler2d":
                continue          # the L2 norm of a vector residual has no stated definition: only iterations and times are judged in 2-D
            if mtype == "residual":
                ref = _l2res(P, s_)
                prim = cases.prim_from_cons(md, s_.data)
                floor = max(float(np.max(x)) for x in sim.natural_scales(md, prim)) / float(np.min(P.dxf))      # natural size of a residual
            else:
                ref, floor = _avg(P, s_, par["data"], md, True)
            if not np.isfinite(ref):          # a run that overflows (unstable configuration): the record overflows as well, nothing to compare
                require(not np.isfinite(v), "monitor-value", "%s: monitor %r at iteration %d has value %r although the state at that iteration gives a non-finite value" % (what, key, it, v))
                continue
            require(abs(v - ref) <= 1e-9 * abs(ref) + 1e-12 * floor, "monitor-value", "%s: monitor %r (%s) at iteration %d has value %r, the state at that iteration gives %r" % (what, key, mtype, it, v, ref))


def check(case):
    md = case["model"]
    P0 = None
    fields = []
    for sd in case["fields"]:
        if md["name"] == "euler2d":
            per = {"type": "per"}
            P = sim.problem2d(dict(model=md, mesh2d=case["mesh2d"], num=case["num"], flux=case["flux"], state=sd, bc=dict(left=per, right=per, bottom=per, top=per)))
            P.dxf = np.full(P.n, P.dx * P.dy)
        else:
            c = dict(model=md, mesh=case["mesh"], num=case["num"], flux=case["flux"], state=sd, bcL={"type": "per"}, bcR={"type": "per"})
            P = sim.problem1d(c)
        if P0 is None:
            P0 = P
        fields.append(cases.build_field(P0.model, P0.mesh, P.cons))
    P = P0
    if md["name"] == "burgers" and any(np.any(f.data[0] == 0) for f in fields):
        raise Skip("burgers cell with u = 0")
    integ = case["integ"]
    cfls = [case["cfl"], case.get("cfl2", case["cfl"])]
    implicit = cases.is_implicit(integ)
    linear_cached = implicit and md["name"] == "convection"
    xtol = None          # across objects: bitwise too (the Jacobian of linear models is cached per computation, not per object)
    chain = None
    ctor = {"ctorres": {"type": "residual", "frequency": 2}} if case["ctor_mon"] else None
    S = cases.build_integrator(integ, P.mesh, P.disc, monitors=ctor)
    P.field = fields[0]
    labels_hist = sim.preuse_solver(P, S, case, cfls[0], variant=(sim.solver_history(case) if not ctor else 0))      # the solver under test may have a past; the reference never has
    # a caller may keep ONE stop dictionary and update its 'maxit' entry between calls (shared_stop) or build a new one for every call
    shared = {} if case.get("shared_stop") else None

    def stopd(n):
        if shared is None:
            return {"maxit": n}
        shared["maxit"] = n
        return shared
    # the whole history may run with the per-cell time-step directive (not gear: its BDF2 recurrence is stated for one step size)
    dtl = bool(case.get("dtlocal")) and "gear" not in integ
    dkw = {"directives": {"dtlocal": True}} if dtl else {}
    last = None        # (field index, total iterations, returned final field) of the last call when it returned the final state
    ncalls, rich = 0, 0
    labels = ["integ:" + integ, "model:" + md["name"], "implicit" if implicit else "explicit"]
    if len(set(cfls[c.get("cfl", 0)] for c in case["calls"])) > 1:
        labels.append("cfl-changes-between-calls")
    for ci, call in enumerate(case["calls"]):
        mon = _copy_mon(call.get("mon"))
        if call["op"] == "restart":
            if last is None:
                continue
            i, Ntot, flast = last
            M = call["M"]
            cfl = cfls[call.get("cfl", 0)]
            states = chain.advance(cfl, M)
            if not all(sim.admissible(P.smd, s_.data) for s_ in states) or _blown_up(states):
                raise Skip("trajectory leaves the admissible set")
            what = "call %d: restart(M=%d) after %d iterations from field %d (%s, cfl=%g)" % (ci, M, Ntot, i, integ, cfl)
            kw = {} if mon is None else {"monitors": mon}
            kw.update(dkw)
            cbefore = _ctor_len(ctor)
            res = S.restart(flast, cfl, stop=stopd(M), **kw)
            require(len(res) == 1, "restart-returns-final", "%s returns %d fields" % (what, len(res)))
            ref = states[Ntot + M]
            require(_eq(res[0], ref, xtol), "restart-equals-single-solve", "%s: state differs from one solve of %d iterations by %.3g (times %r / %r)" % (what, Ntot + M, _diff(res[0], ref), res[0].time, ref.time))
            require(S.totnit() == Ntot + M and S.nit() == M, "restart-iteration-count", "%s: totnit() = %d, nit() = %d, expected %d and %d" % (what, S.totnit(), S.nit(), Ntot + M, M))
            require(res[0].it == Ntot + M, "returned-it", "%s: the returned field carries it = %r, expected the cumulative count %d" % (what, res[0].it, Ntot + M))
            _judge_monitors(P, md, mon, states[Ntot:Ntot + M + 1], Ntot, what)
            _judge_ctor(P, md, ctor, cbefore, states[Ntot:Ntot + M + 1], Ntot, what)
            last = (i, Ntot + M, res[0])
            labels.append("restart")
            ncalls += 1
            rich += 1 if mon else 0
            continue
        i, N = call["field"], call["N"]
        cfl = cfls[call.get("cfl", 0)]
        chain = Chain(P, integ, fields[i], dtl)
        states = chain.advance(cfl, N)
        if not all(sim.admissible(P.smd, s_.data) for s_ in states) or _blown_up(states):
            raise Skip("trajectory leaves the admissible set")
        f0 = fields[i]
        keep = sim.copy_data(f0)
        kw = {} if mon is None else {"monitors": mon}
        kw.update(dkw)
        if call["saves"] is None:
            what = "call %d: solve(field %d, maxit=%d%s) (%s, cfl=%g)" % (ci, i, N, ", monitors" if mon else "", integ, cfl)
            cbefore = _ctor_len(ctor)
            res = S.solve(f0, cfl, stop=stopd(N), **kw)
            require(len(res) == 1, "solve-returns-final", "%s returns %d fields" % (what, len(res)))
            ref = states[N]
            require(_eq(res[0], ref, xtol), "solve-depends-only-on-inputs", "%s: the state differs from the one a fresh solver reaches from the same field by %.3g (times %r / %r)"
                    % (what, _diff(res[0], ref), res[0].time, ref.time))
            require(S.nit() == N and S.totnit() == N, "solve-iteration-count", "%s: nit() = %d, totnit() = %d" % (what, S.nit(), S.totnit()))
            require(res[0].it == N, "returned-it", "%s: the returned field carries it = %r, expected %d" % (what, res[0].it, N))
            _judge_monitors(P, md, mon, states[:N + 1], 0, what)
            _judge_ctor(P, md, ctor, cbefore, states[:N + 1], 0, what)
            if call["repeat"]:
                res2 = S.solve(f0, cfl, stop=stopd(N), **dkw)
                require(_eq(res2[0], res[0], None), "repeat-bit-identical", "%s repeated on the same solver object differs by %.3g" % (what, _diff(res2[0], res[0])))
                labels.append("repeat")
                res = res2
            last = (i, N, res[0])
        else:
            T = states[N].time
            tsave = sorted(set([states[0].time + fr * (T - states[0].time) for fr in call["saves"]]))
            tsave = [t for t in tsave if t < T] + [T]
            what = "call %d: solve(field %d, tsave=%d times up to the time of iteration %d%s) (%s, cfl=%g)" % (ci, i, len(tsave), N, ", monitors" if mon else "", integ, cfl)
            if shared is not None:
                res = S.solve(f0, cfl, tsave, stop=stopd(10 ** 6), **kw)      # an iteration limit that is never reached: the run ends at tsave[-1]
            else:
                res = S.solve(f0, cfl, tsave, stop={"maxit": 2000}, **kw)      # (N <= 6 iterations are expected: the limit only turns a run that never ends into a failure)
            require(len(res) == len(tsave), "snapshots-returned", "%s returns %d snapshots" % (what, len(res)))
            require(S.nit() == N, "saves-iteration-count", "%s: nit() = %d" % (what, S.nit()))
            # same call without the intermediate save times: model (fresh object) and the same object
            fresh = cases.build_integrator(integ, P.mesh, P.disc)
            ref = fresh.solve(f0, cfl, [T], stop={"maxit": 2000}, **dkw)
            require(len(ref) == 1, "model-sanity", "reference solve returns %d snapshots" % len(ref))
            require(_eq(res[-1], ref[0], xtol), "saving-does-not-change-trajectory", "%s: the final snapshot differs from the run that only saves the final time by %.3g" % (what, _diff(res[-1], ref[0])))
            same = S.solve(f0, cfl, [T], stop={"maxit": 2000}, **dkw)
            require(_eq(res[-1], same[0], None), "saving-does-not-change-trajectory-same-object", "%s: on the same solver object the final snapshot differs from the run without intermediate saves by %.3g" % (what, _diff(res[-1], same[0])))
            _judge_monitors(P, md, mon, states[:N + 1], 0, what)
            last = None
            labels.append("saves")
            rich += 1
        require(all(np.array_equal(a, b) for a, b in zip(f0.data, keep)), "caller-field-unchanged", "%s modified the caller's field" % what)
        ncalls += 1
        rich += 1 if mon else 0
    labels.append("calls:%d" % min(ncalls, 3))
    if case["ctor_mon"]:
        labels.append("ctor-monitor")
    if shared is not None:
        labels.append("shared-stop-dict")
    labels.append("dtlocal" if dtl else "dtglobal")
    return dict(nontrivial=bool(ncalls >= 2 and rich >= 1), labels=sorted(set(labels)))


REQUIRED_LABELS = ['call_histories/restart', 'call_histories/saves', 'call_histories/repeat', 'call_histories/integ:gear', 'call_histories/cfl-changes-between-calls', 'call_histories/ctor-monitor', 'call_histories/implicit', 'call_histories/model:convection']

SUBCHECKS = [
    SubCheck("call_histories", check, strategy=strat, examples={"quick": 350, "thorough": 1500}, shards={"quick": 10, "thorough": 16}),
]

META = dict(
    level_text="Generated call histories on one solver object (solve with/without save times and monitors, immediate repeats, restart) for every integrator incl. the multistep gear and "
               "for linear (cached Jacobian) and nonlinear models; after every call the returned state, time, iteration counts and monitor records are compared with a reference model "
               "made of fresh solver objects, bit for bit where the arithmetic is the same. Exploration only (<= 5 calls, <= 6 iterations per call).",
    level_note="trusted: numpy; the reference model in vf/props/c08.py (fresh objects + calc_timestep/step); monitor values recomputed with volumes from the faces",
    technique="model-based testing over generated call histories (Hypothesis, sequence-as-data) against a fresh-object reference model",
)
