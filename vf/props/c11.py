"""C11 - reconstructions are exact for linear data; unlimited schemes match the kappa stencil.

Oracles: a + b*xf at the faces (faces recomputed from the descriptor), adjacent cell values for extrapol1, and the kappa
scheme written with explicit modular index arithmetic (1-D operator, 2-D face values).
"""
import numpy as np
from hypothesis import strategies as st

from vf import cases, gen
from vf.runner import SubCheck, require, target

RULE = ("linear: reconstruction (every class of flowdyn.xnum incl. muscl x 4 limiters, extrapolk(k)) x arbitrary monotone faces (ratios to 100, 3..30 cells) x a + b*x "
        "profiles for every primitive variable of convection / euler1d; stencil: EXHAUSTIVE unit impulses for n = 2..12 x both speeds x 11 unlimited schemes, plus generated "
        "random periodic data and random k; 2-D: random fields on periodic nx,ny = 2..6 grids, extrapol2d1 / extrapol2dk(k). non-trivial = slope b != 0 / impulse or "
        "non-constant data; distinct = distinct canonical JSON")
ASSUMPTIONS = ["tolerance 1e-12 x data scale (+ the limiters' documented 1e-20/b^2 regularisation)", "faces whose stencil touches a non-periodic boundary are excluded, as the property states"]

EPS = np.finfo(float).eps
SCHEMES_K = {"extrapol2": -1.0, "fromm": 0.0, "quick": 0.5, "extrapol3": 1.0 / 3.0, "centered": 1.0}


def _all_nums():
    out = [dict(name="extrapol1")] + [dict(name=k) for k in SCHEMES_K]
    out += [dict(name="muscl", limiter=l) for l in gen.LIMITERS]
    return out


# ---------------------------------------------------------------- (a) linear / constant data on arbitrary faces
def strat_linear(tier):
    nmax = 16 if tier == "quick" else 30
    num = st.one_of(st.sampled_from(_all_nums()), st.builds(lambda k: dict(name="extrapolk", k=k), gen.f(-1, 1)))
    coef = st.one_of(gen.sfloat(-2, 2), st.just(0.0), st.just(1.0))
    mesh = st.one_of(gen.mesh_faces(3, nmax), gen.mesh_morph(3, nmax), gen.mesh_refined(3, nmax), gen.mesh_uniform(3, nmax), gen.mesh_faces(3, nmax), gen.mesh_morph(3, nmax), gen.mesh_big())
    # length unit: the same mesh from nanometres to tens of kilometres (absolute tolerances on coordinates have no place in a reconstruction)
    unit = st.one_of(st.just(1.0), st.just(1.0), st.builds(lambda e: float(10.0 ** e), st.integers(-10, 4)))
    return st.builds(lambda m, nm, model, a, b, per, u: dict(mesh=cases.scale_mesh(m, u), num=nm, model=model, a=a, b=b, periodic=per, unit=u),
                     mesh, num, st.sampled_from(["convection", "euler1d"]), st.lists(coef, min_size=3, max_size=3), st.lists(coef, min_size=3, max_size=3), st.booleans(), unit)


def check_linear(case):
    mesh = cases.build_mesh(case["mesh"])
    xf = np.asarray(mesh.xf, dtype=float)
    xc = 0.5 * (xf[1:] + xf[:-1])
    n = len(xc)
    L = xf[-1] - xf[0]
    x0 = xf[0]
    if case["model"] == "convection":
        md = dict(name="convection", a=1.0)
        prim = [case["a"][0] + case["b"][0] * (xc - x0) / L]
        ab = [(case["a"][0], case["b"][0] / L)]
        bcL = bcR = {"type": "dirichlet", "prim": [0.0]}
    else:
        md = dict(name="euler1d", gamma=1.4)
        # positive linear profiles for rho and p: level 1+|a|, slope bounded so the profile stays above 0.2
        ab = []
        for k in range(3):
            a, b = case["a"][k], case["b"][k]
            if k != 1:
                a = 1.0 + min(abs(a), 10.0)
                b = float(np.clip(b, -0.8 * a, 0.8 * a))
            else:
                a, b = float(np.clip(a, -2.0, 2.0)), float(np.clip(b, -2.0, 2.0))
            ab.append((a, b / L))
        prim = [ab[k][0] + ab[k][1] * (xc - x0) for k in range(3)]
        bcL = bcR = {"type": "dirichlet", "prim": [1.0, 0.0, 1.0]}
    if case["periodic"]:
        bcL = bcR = {"type": "per"}
    model = cases.build_model(md)
    disc = cases.build_disc(model, mesh, case["num"], None if md["name"] == "convection" else "hlle", bcL, bcR)
    f = cases.build_field(model, mesh, cases.cons_from_prim(md, prim))
    disc.rhs(f)
    pL, pR = disc.pL, disc.pR
    name = case["num"]["name"]
    worst = 0.0
    # round-off of the conservative -> primitive conversion seen by the reconstruction (none for convection)
    conv = 0.0 if md["name"] == "convection" else 2e-13 * (1.0 + float(np.max(prim[1] ** 2 * prim[0] / prim[2])))
    for k in range(len(prim)):
        a, b = ab[k]
        d = prim[k]
        # what the discretisation itself sees as primitive data (conversion round-off for euler)
        dd = np.asarray(disc.pdata[k], dtype=float)
        scale = np.max(np.abs(d)) + abs(b) * L + 1e-300
        require(np.max(np.abs(dd - d)) <= conv * scale + 4 * EPS * scale, "pdata", "primitive data seen by the reconstruction differ from the field")
        l, r = np.asarray(pL[k], dtype=float), np.asarray(pR[k], dtype=float)
        require(l.shape == (n + 1,) and r.shape == (n + 1,), "face-shape", "face state arrays have shapes %r %r for %d cells" % (l.shape, r.shape, n))
        if name == "extrapol1":
            require(np.array_equal(l[1:], dd) and np.array_equal(r[:-1], dd), "extrapol1-adjacent", "extrapol1 does not return the adjacent cell values")
            continue
        if b == 0.0:
            # constant data: the cell value, everywhere (periodic or not)
            require(np.max(np.abs(l[1:] - dd)) <= 100 * conv * scale and np.max(np.abs(r[:-1] - dd)) <= 100 * conv * scale, "constant-exact",
                    "reconstruction of constant data differs from the cell value by %r" % float(max(np.max(np.abs(l[1:] - dd)), np.max(np.abs(r[:-1] - dd)))))
            continue
        exact = a + b * (xf - x0)
        reg = 1e-20 / b ** 2 if name == "muscl" else 0.0
        # conversion noise on the data is amplified by the ratio of neighbouring cell sizes in the extrapolation
        tol = (1e-12 + 2 * reg + 200 * conv) * scale
        # L state at face j comes from cell j-1 (needs cells 1..n-2): j in 2..n-1 ; R state at face j from cell j: j in 1..n-2
        if n >= 3:
            eL = np.abs(l[2:n] - exact[2:n])
            eR = np.abs(r[1:n - 1] - exact[1:n - 1])
            if eL.size:
                j = int(np.argmax(eL))
                require(eL[j] <= tol, "linear-exact-left", "variable %d: left state at face %d is %r, linear profile gives %r (%s)" % (k, j + 2, float(l[j + 2]), float(exact[j + 2]), name))
                worst = max(worst, float(eL[j] / scale))
            if eR.size:
                j = int(np.argmax(eR))
                require(eR[j] <= tol, "linear-exact-right", "variable %d: right state at face %d is %r, linear profile gives %r (%s)" % (k, j + 1, float(r[j + 1]), float(exact[j + 1]), name))
                worst = max(worst, float(eR[j] / scale))
    target(worst, "linear-reconstruction-error")
    nt = any(b != 0 for _, b in ab) and n >= 4
    return dict(nontrivial=nt, labels=["num:" + name + (":" + case["num"].get("limiter", "") if name == "muscl" else ""), "mesh:" + case["mesh"]["kind"], "model:" + case["model"],
                                       "periodic" if case["periodic"] else "open", "unit:" + ("1" if case.get("unit", 1.0) == 1.0 else "<1e-6" if case["unit"] < 1e-6 else "other")])


# ---------------------------------------------------------------- (b) kappa stencil of the convection operator
def kappa_rhs(u, a, dx, k):
    """reference kappa-scheme residual with explicit modular indices"""
    n = len(u)
    km, kp = (1.0 - k) / 4.0, (1.0 + k) / 4.0
    flux = np.zeros(n)     # flux[j] = flux through the face between cell j and j+1
    for j in range(n):
        jm, jp, jpp = (j - 1) % n, (j + 1) % n, (j + 2) % n
        uL = u[j] + km * (u[j] - u[jm]) + kp * (u[jp] - u[j])
        uR = u[jp] - km * (u[jpp] - u[jp]) - kp * (u[jp] - u[j])
        flux[j] = a * uL if a > 0 else a * uR
    return np.array([-(flux[j] - flux[(j - 1) % n]) / dx for j in range(n)])


def _stencil_nums():
    out = [(dict(name=nm), k) for nm, k in SCHEMES_K.items()]
    out += [(dict(name="extrapolk", k=k), k) for k in (-1.0, -0.5, 0.0, 1.0 / 3.0, 0.5, 1.0)]
    return out


def enum_impulses(tier):
    for n in range(2, 13):
        for pos in range(n):
            for a in (1.0, -1.0):
                for num, _k in _stencil_nums():
                    yield dict(n=n, impulse=pos, a=a, num=num, length=1.0)


def strat_stencil(tier):
    nmax = 24 if tier == "quick" else 60
    num = st.one_of(st.sampled_from([x[0] for x in _stencil_nums()]), st.builds(lambda k: dict(name="extrapolk", k=k), gen.f(-1, 1)))
    unit = st.one_of(st.just(1.0), st.just(1.0), st.builds(lambda e: float(10.0 ** e), st.integers(-10, 4)))
    return st.builds(lambda n, a, nm, L, x0, d, u: dict(n=n, a=a, num=nm, length=L * u, x0=x0 * u, data=d),
                     st.one_of(st.integers(2, nmax), st.integers(2, nmax), st.integers(2, nmax), st.sampled_from([129, 300, 1025])), gen.model_convection().map(lambda m: m["a"]), num, gen.logf(-2, 2), gen.f(-3, 3),
                     st.lists(gen.sfloat(-3, 2), min_size=1, max_size=11), unit)


def check_stencil(case):
    n = case["n"]
    a = case["a"]
    L = case["length"]
    k = case["num"].get("k", SCHEMES_K.get(case["num"]["name"]))
    md = dict(name="convection", a=a)
    model = cases.build_model(md)
    mesh = cases.build_mesh(dict(kind="uni", n=n, length=L, x0=case.get("x0", 0.0)))
    disc = cases.build_disc(model, mesh, case["num"], None, {"type": "per"}, {"type": "per"})
    if "impulse" in case:
        u = np.zeros(n)
        u[case["impulse"]] = 1.0
    else:
        u = np.array(case["data"], dtype=float)[np.arange(n) % len(case["data"])]
    f = cases.build_field(model, mesh, [u])
    r = np.asarray(disc.rhs(f)[0], dtype=float)
    dx = L / n
    ref = kappa_rhs(u, a, dx, k)
    scale = abs(a) / dx * (np.max(np.abs(u)) + 1e-300)
    err = np.abs(r - ref) / scale
    j = int(np.argmax(err))
    require(r.shape == (n,), "rhs-shape", "rhs has shape %r" % (r.shape,))
    tolk = 1e-12 + 16 * EPS * (abs(case.get("x0", 0.0)) + L) / dx      # round-off of the face coordinates themselves
    require(err[j] <= tolk, "kappa-stencil", "cell %d: rhs = %r, kappa(%g) stencil gives %r (n=%d, a=%g, %s)" % (j, float(r[j]), k, float(ref[j]), n, a, case["num"]["name"]))
    target(float(err[j]), "stencil-error")
    if np.all(u == np.round(u)) and np.max(np.abs(u)) < 2 ** 52:
        # "for all data": whole-number data held in an integer array (the natural way to write an impulse, np.eye(n, dtype=int)[j]) give the same operator
        import flowdyn.field as ffield
        fi = ffield.fdata(model, mesh, [u.astype(np.int64)])
        ri = np.asarray(disc.rhs(fi)[0], dtype=float)
        ei = np.abs(ri - ref) / scale
        ji = int(np.argmax(ei))
        require(ri.shape == (n,) and ei[ji] <= tolk, "kappa-stencil-integer-data", "cell %d: rhs of the same data held in an integer array = %r, kappa(%g) stencil gives %r (n=%d, a=%g, %s)"
                % (ji, float(ri[ji]), k, float(ref[ji]), n, a, case["num"]["name"]))
    return dict(nontrivial=bool(np.any(u != u[0])), labels=["num:" + case["num"]["name"], "a>0" if a > 0 else "a<0", "n:%s" % (n if n <= 4 else ">4")])


# ---------------------------------------------------------------- (c) 2-D face values along each direction
def strat_2d(tier):
    nmax = 5 if tier == "quick" else 8
    vals = st.lists(gen.f(-0.2, 0.2), min_size=2, max_size=17)
    return st.builds(lambda nx, ny, lx, ly, num, r, p, u, v: dict(nx=nx, ny=ny, lx=lx, ly=ly, num=num, lnrho=r, lnp=p, u=u, v=v),
                     st.integers(2, nmax), st.integers(2, nmax), gen.logf(-1, 1), gen.logf(-1, 1), gen.num2d_any(), vals, vals, vals, vals)


def check_2d(case):
    nx, ny = case["nx"], case["ny"]
    n = nx * ny
    md = dict(name="euler2d", gamma=1.4)
    model = cases.build_model(md)
    mesh = cases.build_mesh2d(case)
    idx = np.arange(n)
    rho = np.exp(np.array(case["lnrho"])[idx % len(case["lnrho"])])
    p = np.exp(np.array(case["lnp"])[idx % len(case["lnp"])])
    V = np.vstack([np.array(case["u"])[idx % len(case["u"])], np.array(case["v"])[(idx * 3 + 1) % len(case["v"])]])
    disc = cases.build_disc2d(model, mesh, case["num"], "hlle", {t: {"type": "per"} for t in mesh.list_of_bctags()})
    f = cases.build_field(model, mesh, cases.cons_from_prim(md, [rho, V, p]))
    disc.rhs(f)
    k = case["num"].get("k")
    km, kp = ((1.0 - k) / 4.0, (1.0 + k) / 4.0) if k is not None else (0.0, 0.0)
    nxf = (nx + 1) * ny
    comps = [("rho", rho, lambda a: a[0]), ("u", V[0], lambda a: a[1][0]), ("v", V[1], lambda a: a[1][1]), ("p", p, lambda a: a[2])]
    worst = 0.0
    for nm, d, pick in comps:
        l, r = np.asarray(pick(disc.pL), dtype=float), np.asarray(pick(disc.pR), dtype=float)
        require(l.shape == (nxf + nx * (ny + 1),), "face-shape", "2-D face array has shape %r" % (l.shape,))
        c = lambda i, j: d[(j % ny) * nx + (i % nx)]
        scale = np.max(np.abs(d)) + 1e-300
        for j in range(ny):
            for i in range(nx + 1):
                fi = j * (nx + 1) + i
                eL = c(i - 1, j) + km * (c(i - 1, j) - c(i - 2, j)) + kp * (c(i, j) - c(i - 1, j))
                eR = c(i, j) - km * (c(i + 1, j) - c(i, j)) - kp * (c(i, j) - c(i - 1, j))
                e = max(abs(l[fi] - eL), abs(r[fi] - eR)) / scale
                worst = max(worst, e)
                require(e <= 1e-12, "2d-xface-values", "%s at i-face (i=%d,j=%d): L/R = %r/%r, kappa stencil along x gives %r/%r" % (nm, i, j, float(l[fi]), float(r[fi]), float(eL), float(eR)))
        for j in range(ny + 1):
            for i in range(nx):
                fi = nxf + j * nx + i
                eL = c(i, j - 1) + km * (c(i, j - 1) - c(i, j - 2)) + kp * (c(i, j) - c(i, j - 1))
                eR = c(i, j) - km * (c(i, j + 1) - c(i, j)) - kp * (c(i, j) - c(i, j - 1))
                e = max(abs(l[fi] - eL), abs(r[fi] - eR)) / scale
                worst = max(worst, e)
                require(e <= 1e-12, "2d-yface-values", "%s at j-face (i=%d,j=%d): L/R = %r/%r, kappa stencil along y gives %r/%r" % (nm, i, j, float(l[fi]), float(r[fi]), float(eL), float(eR)))
    target(worst, "2d-face-error")
    return dict(nontrivial=True, labels=["num:" + case["num"]["name"], "nx=ny" if nx == ny else "nx!=ny", "min:%d" % min(nx, ny)])


SUBCHECKS = [
    SubCheck("linear_exact", check_linear, strategy=strat_linear, examples={"quick": 600, "thorough": 4000}, shards={"quick": 4, "thorough": 16}),
    SubCheck("stencil_impulses", check_stencil, enumerate=enum_impulses, shards={"quick": 4, "thorough": 8}),
    SubCheck("stencil_random", check_stencil, strategy=strat_stencil, examples={"quick": 400, "thorough": 3000}, shards={"quick": 2, "thorough": 8}),
    SubCheck("faces2d", check_2d, strategy=strat_2d, examples={"quick": 200, "thorough": 1200}, shards={"quick": 3, "thorough": 12}),
]

META = dict(
    level_text="Generated search over meshes, reconstructions and linear profiles (face states read from the discretisation and compared with a + b*xf), an EXHAUSTIVE enumeration "
               "of unit impulses for n = 2..12 x both speeds x 11 unlimited schemes against the circulant kappa stencil (complete for those sizes by linearity), generated random "
               "periodic data / random k, and 2-D face values along each direction. Exploration (exhaustive only for the enumerated impulse part, flagged in the evidence).",
    level_note="trusted: numpy; the kappa-scheme reference written with modular indices in vf/props/c11.py; tolerance 1e-12 x data scale",
    technique="property-based testing (Hypothesis given) + finite enumeration of unit impulses against a reference stencil",
)
