"""C16 - boundary states satisfy the conditions that define them.

(i) direct calls model.namedBC(name, dir, interior, params) on arrays of interior states, dir = -1/+1 (2-D: the four
outward normals); (ii) the dispatch of fvm1d / fvm2dcart: after rhs() the exterior face state of every boundary face is
judged with the same definitions against the adjacent cell and the geometric outward normal.
Oracle: the definitions (total pressure / temperature, Riemann invariants, Rankine-Hugoniot, entropy) recomputed here.
"""
import math

import zlib
import numpy as np
from hypothesis import strategies as st

from vf import cases, gen, oracles
from vf.runner import SubCheck, Violation, require, target

RULE = ("direct: (model, gamma, BC name discovered in the model's registry, dir, 1..12 interior states inside the regime of the condition, parameters over "
        "4 decades unrelated to the interior state); dispatch: small 1-D meshes / 2-D grids with a BC type per side, states read back from the discretisation "
        "after rhs(). non-trivial = the parameters differ from the interior state by more than 1% (or, for copy/sym conditions, a non-zero normal velocity); "
        "distinct = distinct canonical JSON")
ASSUMPTIONS = ["regimes derived from the definitions: insub p_int<=ptot; insub_cbc interior at rest/inflow and rttot>=(p/rho)_int; insup p<=ptot; outsub_qtot outflow and p<=ptot_int",
               "the outgoing Riemann invariant is u + dir*2c/(gamma-1) (carried by the characteristic of speed u + dir*c, which leaves the domain through the side of outward normal dir) for both insub_cbc and outsub_nrcbc",
               "relative tolerance 1e-11/(gamma-1)"]

BC1D = ["sym", "insub", "insub_cbc", "insup", "outsub", "outsub_prim", "outsub_qtot", "outsub_rh", "outsub_nrcbc", "outsup", "dirichlet"]
BC2D = ["sym", "insub", "insup", "outsub", "outsup", "dirichlet"]


# ---------------------------------------------------------------- definitions (oracle)
def _tot(g, rho, v2, p):
    m2 = v2 / (g * p / rho)
    fac = 1.0 + 0.5 * (g - 1.0) * m2
    return p * fac ** (g / (g - 1.0)), p / rho * fac


def _rel(a, b, tol, pred, what, scale=None):
    a = np.asarray(a, dtype=float)
    b = np.asarray(b, dtype=float) + 0.0 * a
    require(np.all(np.isfinite(a)), pred + "-finite", "%s: non-finite boundary state" % what)
    sc = np.abs(b) if scale is None else np.asarray(scale, dtype=float) + 0.0 * a
    err = np.abs(a - b) / (sc + 1e-300)
    k = int(np.argmax(err))
    require(float(err.flat[k]) <= tol, pred, "%s: got %r, definition gives %r (rel err %.3g)" % (what, float(a.flat[k]), float(b.flat[k]), float(err.flat[k])))
    return float(err.flat[k])


def judge_euler(g, bc, nrm, inner, state, par, where):
    """nrm: +-1 (1-D, outward) or (2,n) outward unit normals; inner/state = [rho, vel, p] with vel (n,) or (2,n).
    returns (nontrivial, worst error)"""
    tol = 1e-11 / (g - 1.0)
    rho0, V0, p0 = [np.asarray(x, dtype=float) for x in inner]
    rho1, V1, p1 = [np.asarray(x, dtype=float) for x in state]
    require(rho1.shape == rho0.shape and V1.shape == V0.shape and p1.shape == p0.shape, "bc-shape", "%s %s: shapes of the boundary state differ from the interior state" % (where, bc))
    two = V0.ndim == 2
    if two:
        un0, un1 = V0[0] * nrm[0] + V0[1] * nrm[1], V1[0] * nrm[0] + V1[1] * nrm[1]
        v20, v21 = V0[0] ** 2 + V0[1] ** 2, V1[0] ** 2 + V1[1] ** 2
    else:
        un0, un1 = V0 * nrm, V1 * nrm
        v20, v21 = V0 ** 2, V1 ** 2
    c0, c1 = np.sqrt(g * p0 / rho0), np.sqrt(g * p1 / rho1)
    vs = np.sqrt(v21) + c1     # velocity scale
    w = 0.0
    nt = True
    if bc in ("insub", "insub_cbc", "insup"):
        pt1, rt1 = _tot(g, rho1, v21, p1)
        w = max(w, _rel(pt1, par["ptot"], tol, "def:%s-ptot" % bc, "%s %s total pressure" % (where, bc)))
        w = max(w, _rel(rt1, par["rttot"], tol, "def:%s-rttot" % bc, "%s %s total temperature" % (where, bc)))
        require(np.all(un1 <= 1e-13 * vs), "def:%s-inflow" % bc, "%s %s: velocity does not point into the domain (outward normal component %r)" % (where, bc, float(np.max(un1))))
        if two:
            if bc == "insup" and "angle" in par:
                ang = math.radians(par["angle"])
                cross = V1[0] * math.sin(ang) - V1[1] * math.cos(ang)
                dot = V1[0] * math.cos(ang) + V1[1] * math.sin(ang)
                require(np.all(np.abs(cross) <= 1e-12 * vs) and np.all(dot >= 0), "def:insup-angle", "%s insup: velocity is not along the imposed angle" % where)
            else:
                tang = V1[0] * nrm[1] - V1[1] * nrm[0]
                require(np.all(np.abs(tang) <= 1e-12 * vs), "def:%s-normal" % bc, "%s %s: inflow velocity is not normal to the boundary" % (where, bc))
        if bc == "insub":
            w = max(w, _rel(p1, p0, tol, "def:insub-p", "%s insub keeps the interior pressure" % where))
            nt = bool(np.any(np.abs(p0 / par["ptot"] - 1) > 0.01))
        elif bc == "insup":
            w = max(w, _rel(p1, par["p"], tol, "def:insup-p", "%s insup imposed pressure" % where))
        else:
            j0 = un0 + 2.0 * c0 / (g - 1.0)      # nrm*(u + nrm*2c/(g-1)) : outgoing invariant
            j1 = un1 + 2.0 * c1 / (g - 1.0)
            w = max(w, _rel(j1, j0, tol, "def:insub_cbc-invariant", "%s insub_cbc outgoing Riemann invariant" % where, scale=np.abs(un0) + 2 * c0 / (g - 1.0)))
    elif bc in ("outsub", "outsub_prim"):
        w = max(w, _rel(p1, par["p"], tol, "def:outsub-p", "%s %s imposed pressure" % (where, bc)))
        require(np.array_equal(rho1, rho0) and np.array_equal(V1, V0), "def:outsub-copy", "%s %s does not copy density and velocity" % (where, bc))
        nt = bool(np.any(np.abs(p0 / par["p"] - 1) > 0.01))
    elif bc == "outsub_qtot":
        pt0, rt0 = _tot(g, rho0, v20, p0)
        pt1, rt1 = _tot(g, rho1, v21, p1)
        w = max(w, _rel(p1, par["p"], tol, "def:outsub_qtot-p", "%s outsub_qtot imposed pressure" % where))
        w = max(w, _rel(pt1, pt0, tol, "def:outsub_qtot-ptot", "%s outsub_qtot keeps total pressure" % where))
        w = max(w, _rel(rt1, rt0, tol, "def:outsub_qtot-rttot", "%s outsub_qtot keeps total temperature" % where))
        require(np.all(un1 >= -1e-13 * vs), "def:outsub_qtot-outflow", "%s outsub_qtot: velocity does not leave the domain" % where)
        nt = bool(np.any(np.abs(p0 / par["p"] - 1) > 0.01))
    elif bc == "outsub_nrcbc":
        w = max(w, _rel(p1, par["p"], tol, "def:outsub_nrcbc-p", "%s outsub_nrcbc imposed pressure" % where))
        w = max(w, _rel(np.log(p1) - g * np.log(rho1), np.log(p0) - g * np.log(rho0), tol, "def:outsub_nrcbc-entropy", "%s outsub_nrcbc entropy" % where,
                        scale=1.0 + np.abs(np.log(p0)) + g * np.abs(np.log(rho0))))
        # outgoing characteristic (speed un + c along the outward normal): its invariant un + 2c/(g-1) is carried from the interior to the boundary state
        j0 = un0 + 2.0 * c0 / (g - 1.0)
        j1 = un1 + 2.0 * c1 / (g - 1.0)
        w = max(w, _rel(j1, j0, tol, "def:outsub_nrcbc-invariant", "%s outsub_nrcbc outgoing invariant u + dir*2c/(g-1)" % where, scale=np.abs(un0) + 2 * np.maximum(c0, c1) / (g - 1.0)))
        nt = bool(np.any(np.abs(p0 / par["p"] - 1) > 0.01))
    elif bc == "outsub_rh":
        w = max(w, _rel(p1, par["p"], tol, "def:outsub_rh-p", "%s outsub_rh imposed pressure" % where))
        # Rankine-Hugoniot between interior (0) and exterior (1), written without the shock speed
        pmax, rmax = np.maximum(p0, p1), np.maximum(rho0, rho1)
        du = un1 - un0
        lhs = du ** 2 * rho0 * rho1
        rhs = (p1 - p0) * (rho1 - rho0)
        w = max(w, _rel(lhs, rhs, 4 * tol, "def:outsub_rh-mass-momentum", "%s outsub_rh mass+momentum jump relation" % where, scale=pmax * rmax))
        e0, e1 = p0 / rho0 / (g - 1.0), p1 / rho1 / (g - 1.0)
        w = max(w, _rel(e1 - e0, 0.5 * (p1 + p0) * (1.0 / rho0 - 1.0 / rho1), 4 * tol, "def:outsub_rh-energy", "%s outsub_rh Hugoniot energy relation" % where,
                        scale=np.maximum(e0, e1)))
        # a compression (p1>p0) decelerates the outgoing normal velocity, an expansion accelerates it
        require(np.all(du * np.sign(p1 - p0) <= 1e-12 * vs), "def:outsub_rh-branch", "%s outsub_rh: wrong branch of the jump relations (velocity jump has the wrong sign)" % where)
        if two:
            tang0 = V0[0] * nrm[1] - V0[1] * nrm[0]
            tang1 = V1[0] * nrm[1] - V1[1] * nrm[0]
            w = max(w, _rel(tang1, tang0, tol, "def:outsub_rh-tangential", "%s outsub_rh tangential velocity" % where, scale=vs))
        nt = bool(np.any(np.abs(p0 / par["p"] - 1) > 0.01))
    elif bc == "outsup":
        require(np.array_equal(rho1, rho0) and np.array_equal(V1, V0) and np.array_equal(p1, p0), "def:outsup-copy", "%s outsup does not copy the interior state" % where)
        nt = bool(np.any(un0 != 0))
    elif bc == "sym":
        require(np.array_equal(rho1, rho0) and np.array_equal(p1, p0), "def:sym-scalars", "%s sym changes density or pressure" % where)
        w = max(w, _rel(un1, -un0, 1e-14, "def:sym-normal", "%s sym reverses the normal velocity" % where, scale=vs))
        if two:
            tang0 = V0[0] * nrm[1] - V0[1] * nrm[0]
            tang1 = V1[0] * nrm[1] - V1[1] * nrm[0]
            w = max(w, _rel(tang1, tang0, 1e-14, "def:sym-tangential", "%s sym keeps the tangential velocity" % where, scale=vs))
        nt = bool(np.any(un0 != 0))
    elif bc == "dirichlet":
        prim = par["prim"]
        w = max(w, _rel(rho1, prim[0], 0.0, "def:dirichlet", "%s dirichlet density" % where))
        w = max(w, _rel(p1, prim[2], 0.0, "def:dirichlet", "%s dirichlet pressure" % where))
        pv = np.asarray(prim[1], dtype=float)
        require(np.all(V1 == (pv if pv.ndim == 0 or not two else pv.reshape(2, 1))), "def:dirichlet", "%s dirichlet velocity" % where)
        nt = True
    else:
        raise Violation("unknown-bc", "no definition for boundary condition %r: extend vf/props/c16.py" % bc)
    return nt, w / tol if tol > 0 else w


# ---------------------------------------------------------------- parameters by regime
def make_params(g, bc, nrm, inner, e):
    """admissible parameter dictionary for `bc`; for a third of the (bc, e) pairs it is a superset dictionary that also carries the keys among
    ptot / rttot / p which this condition does not read (one dictionary reused while the type is switched): they are documented to be ignored"""
    par = _make_params(g, bc, nrm, inner, e)
    if isinstance(par, dict) and zlib.crc32(repr((bc, [float(x) for x in e])).encode()) % 3 == 0:
        pm = float(np.exp(np.mean(np.log(inner[2]))))
        extra = dict(p=pm * 10 ** (1.2 * e[1] - 0.7), ptot=pm * 10 ** (1.5 * e[2] + 0.1), rttot=10 ** (3 * e[0] - 1.3))
        par = dict(par, **{k: v for k, v in extra.items() if k not in par})
    return par


def _make_params(g, bc, nrm, inner, e):
    """admissible parameter dictionary for `bc` given the interior arrays and exponents e=[e1,e2,e3] in [0,1]"""
    rho0, V0, p0 = inner
    v20 = V0 ** 2 if V0.ndim == 1 else V0[0] ** 2 + V0[1] ** 2
    if bc == "insub":
        return dict(ptot=float(np.max(p0)) * 10 ** (2 * e[0]), rttot=10 ** (4 * e[1] - 2))
    if bc == "insub_cbc":
        return dict(ptot=10 ** (4 * e[0] - 2), rttot=float(np.max(p0 / rho0)) * 10 ** (1.5 * e[1]) * (1 + 1e-9))
    if bc == "insup":
        p = 10 ** (4 * e[2] - 2)
        d = dict(p=p, ptot=p * 10 ** (2 * e[0]), rttot=10 ** (4 * e[1] - 2))
        return d
    if bc in ("outsub", "outsub_prim", "outsub_nrcbc", "outsub_rh"):
        if e[1] < 0.25:
            # a quarter of the cases: the imposed pressure is within 1e-9 .. 1e-5 (relative) of the interior pressure of the first face, above or below
            # (an outlet close to its converged state), not equal to it
            return dict(p=float(p0.flat[0]) * (1.0 + (1.0 if e[2] > 0.5 else -1.0) * 10.0 ** (-9.0 + 16.0 * e[1])))
        return dict(p=float(np.exp(np.mean(np.log(p0)))) * 10 ** (2 * e[0] - 1))
    if bc == "outsub_qtot":
        pt0, _ = _tot(g, rho0, v20, p0)
        return dict(p=float(np.min(pt0)) * 10 ** (-2 * e[0]))
    if bc == "dirichlet":
        return None
    return {}


def regime_velocity(bc, mach):
    """normal Mach number (positive = leaving the domain) admissible for the condition, from a raw Mach in [-3,3]"""
    m = np.asarray(mach, dtype=float)
    if bc == "insub_cbc":
        return -np.abs(m) / 3.0 * 0.95      # at rest or flowing in, subsonic
    if bc == "outsub_qtot":
        return np.abs(m) / 3.0 * 0.95       # flowing out, subsonic
    if bc in ("outsub_rh", "outsub_nrcbc", "outsub", "outsub_prim"):
        return m / 3.0 * 0.95
    return m


# ---------------------------------------------------------------- direct calls, 1-D
def _vals(lo, hi, nmin=1, nmax=12, special=()):
    return st.lists(st.one_of(gen.f(lo, hi), st.sampled_from([0.0] + list(special))), min_size=nmin, max_size=nmax)


def strat_direct1d(tier):
    names = [b for b in cases.build_model(dict(name="euler1d"))._bcdict.dict.keys()]
    return st.builds(lambda g, bc, d, r, p, m, e, dp: dict(gamma=g, bc=bc, dir=d, lnrho=r, lnp=p, mach=m, e=e, dprim=dp),
                     gen.GAMMAS, st.sampled_from(sorted(names)), st.sampled_from([-1, 1]),
                     _vals(-4.6, 4.6), _vals(-4.6, 4.6), _vals(-3, 3, special=[1.0, -1.0, 3.0, -3.0]),
                     st.lists(st.one_of(gen.f(0, 1), st.sampled_from([0.0, 1.0, 0.5])), min_size=3, max_size=3),
                     st.lists(gen.f(-2, 2), min_size=3, max_size=3))


def _interior(case, bc, nvel=1):
    n = max(len(case["lnrho"]), len(case["lnp"]), len(case["mach"]))
    idx = np.arange(n)
    rho = np.exp(np.array(case["lnrho"])[idx % len(case["lnrho"])])
    p = np.exp(np.array(case["lnp"])[idx % len(case["lnp"])])
    m = np.array(case["mach"])[idx % len(case["mach"])]
    return n, rho, p, m


def check_direct1d(case):
    g, bc, d = case["gamma"], case["bc"], case["dir"]
    model = cases.build_model(dict(name="euler1d", gamma=g))
    n, rho, p, m = _interior(case, bc)
    c = np.sqrt(g * p / rho)
    u = d * regime_velocity(bc, m) * c        # normal Mach -> velocity along x
    inner = [rho, u, p]
    par = make_params(g, bc, d, inner, case["e"])
    if bc == "dirichlet":
        dp = case["dprim"]
        par = dict(prim=[math.exp(dp[0]), dp[1], math.exp(dp[2])])
    param = dict(par, type=bc)
    keep = [x.copy() for x in inner]
    out = model.namedBC(bc, d, [x.copy() for x in inner], param)
    require(len(out) == 3, "bc-len", "%s returns %d components" % (bc, len(out)))
    if bc == "dirichlet":
        state = [np.full(n, float(out[0])), np.full(n, float(out[1])), np.full(n, float(out[2]))]
    else:
        state = [np.asarray(x, dtype=float) + np.zeros(n) for x in out]
    nt, w = judge_euler(g, bc, float(d), keep, state, par, "direct dir=%+d" % d)
    # the SAME model object then serves the other side of the domain with the mirror-image interior state (a condition must not remember the side it saw first)
    if bc != "dirichlet":
        keep2 = [rho.copy(), -u.copy(), p.copy()]
        out2 = model.namedBC(bc, -d, [x.copy() for x in keep2], dict(par, type=bc))
        state2 = [np.asarray(x, dtype=float) + np.zeros(n) for x in out2]
        _nt2, w2 = judge_euler(g, bc, float(-d), keep2, state2, par, "direct dir=%+d (same model object, after dir=%+d)" % (-d, d))
        w = max(w, w2)
    target(w, "bc-error/tol")
    return dict(nontrivial=nt, labels=["bc:" + bc, "dir:%+d" % d, "supersonic" if np.any(np.abs(u) > c) else "subsonic"])


# ---------------------------------------------------------------- direct calls, 2-D
NORMALS = {"left": (-1.0, 0.0), "right": (1.0, 0.0), "bottom": (0.0, -1.0), "top": (0.0, 1.0)}


def strat_direct2d(tier):
    names = sorted(cases.build_model(dict(name="euler2d"))._bcdict.dict.keys())
    return st.builds(lambda g, bc, side, r, p, m, t, e, ang, dp: dict(gamma=g, bc=bc, side=side, lnrho=r, lnp=p, mach=m, tmach=t, e=e, angle=ang, dprim=dp),
                     gen.GAMMAS, st.sampled_from(names), st.sampled_from(sorted(NORMALS)),
                     _vals(-4.6, 4.6), _vals(-4.6, 4.6), _vals(-3, 3, special=[1.0, -1.0]), _vals(-2, 2),
                     st.lists(gen.f(0, 1), min_size=3, max_size=3),
                     st.one_of(st.none(), gen.f(-180, 180), st.sampled_from([0.0, 90.0, 45.0, -90.0, 180.0])),
                     st.lists(gen.f(-2, 2), min_size=4, max_size=4))


def check_direct2d(case):
    g, bc, side = case["gamma"], case["bc"], case["side"]
    model = cases.build_model(dict(name="euler2d", gamma=g))
    n, rho, p, m = _interior(case, bc)
    tm = np.array(case["tmach"])[np.arange(n) % len(case["tmach"])]
    c = np.sqrt(g * p / rho)
    nx_, ny_ = NORMALS[side]
    nrm = np.array([[nx_] * n, [ny_] * n])
    mn = regime_velocity(bc, m)
    V = np.vstack([(mn * nx_ - tm * ny_) * c, (mn * ny_ + tm * nx_) * c])   # normal + tangential components
    inner = [rho, V, p]
    par = make_params(g, bc, nrm, inner, case["e"])
    if bc == "insup" and case["angle"] is not None:
        par["angle"] = case["angle"]
    if bc == "dirichlet":
        dp = case["dprim"]
        par = dict(prim=[math.exp(dp[0]), np.array([[dp[1]], [dp[3]]]), math.exp(dp[2])])
    param = dict(par, type=bc)
    keep = [x.copy() for x in inner]
    out = model.namedBC(bc, nrm.copy(), [x.copy() for x in inner], param)
    if bc == "dirichlet":
        state = [np.full(n, float(out[0])), np.asarray(out[1], dtype=float) + np.zeros((2, n)), np.full(n, float(out[2]))]
        par = dict(prim=[par["prim"][0], par["prim"][1], par["prim"][2]])
    else:
        state = [np.asarray(out[0], dtype=float) + np.zeros(n), np.asarray(out[1], dtype=float) + np.zeros((2, n)), np.asarray(out[2], dtype=float) + np.zeros(n)]
    if bc == "insup" and "angle" in par:
        # an imposed angle may point out of the domain: the definition then only fixes magnitude/direction
        ang = math.radians(par["angle"])
        if math.cos(ang) * nx_ + math.sin(ang) * ny_ > -1e-9:
            _judge_insup_angle_only(g, state, par)
            return dict(nontrivial=True, labels=["bc:insup-angle-outward", "side:" + side])
    nt, w = judge_euler(g, bc, nrm, keep, state, par, "direct side=%s" % side)
    target(w, "bc-error/tol")
    return dict(nontrivial=nt, labels=["bc:" + bc + ("-angle" if "angle" in par else ""), "side:" + side])


def _judge_insup_angle_only(g, state, par):
    tol = 1e-11 / (g - 1.0)
    rho1, V1, p1 = state
    pt1, rt1 = _tot(g, rho1, V1[0] ** 2 + V1[1] ** 2, p1)
    _rel(pt1, par["ptot"], tol, "def:insup-ptot", "insup(angle) total pressure")
    _rel(rt1, par["rttot"], tol, "def:insup-rttot", "insup(angle) total temperature")
    _rel(p1, par["p"], tol, "def:insup-p", "insup(angle) pressure")
    ang = math.radians(par["angle"])
    vs = np.sqrt(V1[0] ** 2 + V1[1] ** 2) + np.sqrt(g * p1 / rho1)
    cross = V1[0] * math.sin(ang) - V1[1] * math.cos(ang)
    dot = V1[0] * math.cos(ang) + V1[1] * math.sin(ang)
    require(np.all(np.abs(cross) <= 1e-12 * vs) and np.all(dot >= 0), "def:insup-angle", "insup: velocity is not along the imposed angle")


# ---------------------------------------------------------------- sym: no mass / energy through a wall, every flux
def strat_wall(tier):
    return st.builds(lambda md, r, p, m, t, face: dict(model=md, lnrho=r, lnp=p, mach=m, tmach=t, face=face),
                     st.one_of(gen.model_euler1d(), gen.model_euler2d(), gen.model_shallowwater()),
                     _vals(-6, 6), _vals(-6, 6), _vals(-3, 3, special=[1.0, -1.0]), _vals(-2, 2), st.sampled_from(["left", "right", "bottom", "top"]))


def check_wall(case):
    md = case["model"]
    name = md["name"]
    model = cases.build_model(md)
    n, rho, p, m = _interior(case, "sym")
    labels = ["model:" + name]
    if name == "shallowwater":
        g = md.get("g", 9.81)
        h = rho
        c = np.sqrt(g * h)
        u = m * c
        for d in (-1, 1):
            img = model.namedBC("sym", d, [h.copy(), u.copy()], {"type": "sym"})
            require(np.array_equal(img[0], h) and np.array_equal(img[1], -u), "def:sw-sym", "shallow-water sym does not reverse the velocity only")
            inf = model.namedBC("inf", d, [h.copy(), u.copy()], {"type": "inf"})
            require(np.array_equal(inf[0], h) and np.array_equal(inf[1], u), "def:sw-inf", "shallow-water inf does not return the interior state")
            for fl in cases.flux_names(md):
                L, R = ([h, u], [img[0], img[1]]) if d == 1 else ([img[0], img[1]], [h, u])
                F = model.numflux(fl, [x.copy() for x in L], [x.copy() for x in R])
                sc = h * (np.abs(u) + c)
                require(np.all(np.abs(F[0]) <= 1e-13 * sc), "wall-mass-flux", "shallowwater/%s: depth flux %r through a wall" % (fl, float(np.max(np.abs(F[0])))))
        return dict(nontrivial=bool(np.any(u != 0)), labels=labels)
    g = md.get("gamma", 1.4)
    c = np.sqrt(g * p / rho)
    if name == "euler1d":
        u = m * c
        for d in (-1, 1):
            img = model.namedBC("sym", d, [rho.copy(), u.copy(), p.copy()], {"type": "sym"})
            for fl in cases.flux_names(md):
                L, R = ([rho, u, p], img) if d == 1 else (img, [rho, u, p])
                F = model.numflux(fl, [np.array(x, dtype=float) for x in L], [np.array(x, dtype=float) for x in R])
                a = np.abs(u) + c
                require(np.all(np.abs(F[0]) <= 1e-13 * rho * a), "wall-mass-flux", "euler1d/%s: mass flux %r through a wall (dir %+d)" % (fl, float(np.max(np.abs(F[0]))), d))
                require(np.all(np.abs(F[2]) <= 1e-13 * rho * a ** 3), "wall-energy-flux", "euler1d/%s: energy flux %r through a wall (dir %+d)" % (fl, float(np.max(np.abs(F[2]))), d))
        return dict(nontrivial=bool(np.any(u != 0)), labels=labels)
    side = case["face"]
    tm = np.array(case["tmach"])[np.arange(n) % len(case["tmach"])]
    nx_, ny_ = NORMALS[side]
    nrm = np.array([[nx_] * n, [ny_] * n])
    V = np.vstack([(m * nx_ - tm * ny_) * c, (m * ny_ + tm * nx_) * c])
    img = model.namedBC("sym", nrm.copy(), [rho.copy(), V.copy(), p.copy()], {"type": "sym"})
    dirc = np.zeros((2, n), dtype=np.int8)
    dirc[0 if side in ("left", "right") else 1] = 1
    for fl in cases.flux_names(md):
        inner = [rho, V, p]
        L, R = (inner, img) if side in ("right", "top") else (img, inner)
        F = model.numflux(fl, [np.array(x, dtype=float) for x in L], [np.array(x, dtype=float) for x in R], dirc)
        a = np.sqrt(V[0] ** 2 + V[1] ** 2) + c
        require(np.all(np.abs(F[0]) <= 1e-13 * rho * a), "wall-mass-flux", "euler2d/%s: mass flux through the %s wall" % (fl, side))
        require(np.all(np.abs(F[2]) <= 1e-13 * rho * a ** 3), "wall-energy-flux", "euler2d/%s: energy flux through the %s wall" % (fl, side))
    labels.append("side:" + side)
    return dict(nontrivial=bool(np.any(m != 0)), labels=labels)


# ---------------------------------------------------------------- dirichlet for every model
def strat_dirichlet(tier):
    return st.builds(lambda md, vals, d: dict(model=md, prim=vals, dir=d),
                     st.one_of(gen.model_convection(), gen.model_burgers(), gen.model_shallowwater(), gen.model_euler1d(), gen.model_nozzle()),
                     st.lists(gen.f(0.1, 10), min_size=3, max_size=3), st.sampled_from([-1, 1]))


def check_dirichlet(case):
    md = case["model"]
    model = cases.build_model(md)
    neq = cases.model_neq(md)
    prim = list(case["prim"][:neq])
    inner = [np.array([1.0, 2.0]) for _ in range(neq)]
    out = model.namedBC("dirichlet", case["dir"], inner, {"type": "dirichlet", "prim": list(prim)})
    require(len(out) == neq and all(float(a) == float(b) for a, b in zip(out, prim)), "def:dirichlet", "dirichlet returns %r for prim=%r" % (out, prim))
    require("dirichlet" in model.list_bc() and "per" in model.list_bc(), "list_bc", "dirichlet/per missing from list_bc()")
    return dict(nontrivial=True, labels=["model:" + md["name"]])


# ---------------------------------------------------------------- dispatch through the discretisation, 1-D
def strat_dispatch1d(tier):
    names = sorted(b for b in cases.build_model(dict(name="euler1d"))._bcdict.dict.keys())
    return st.builds(lambda g, n, bl, br, r, p, m, el, er, fl, dl, dr: dict(gamma=g, n=n, bcL=bl, bcR=br, lnrho=r, lnp=p, mach=m, eL=el, eR=er, flux=fl, dL=dl, dR=dr),
                     gen.GAMMAS, st.integers(1, 8), st.sampled_from(names), st.sampled_from(names),
                     _vals(-2, 2, 1, 8), _vals(-2, 2, 1, 8), _vals(-3, 3, 1, 8),
                     st.lists(gen.f(0, 1), min_size=3, max_size=3), st.lists(gen.f(0, 1), min_size=3, max_size=3),
                     st.sampled_from(cases.flux_names(dict(name="euler1d"))),
                     st.lists(gen.f(-1, 1), min_size=3, max_size=3), st.lists(gen.f(-1, 1), min_size=3, max_size=3)).flatmap(
        lambda c: st.builds(lambda num: dict(c, num=num), st.one_of(st.just(dict(name="extrapol1")), st.just(dict(name="extrapol1")), gen.num_unlimited(), gen.num_muscl())))


HIGH_ORDER_BC = ["sym", "insub", "insup", "outsub", "outsub_prim", "outsub_rh", "outsub_nrcbc", "outsup", "dirichlet"]


def check_dispatch1d(case):
    num = case.get("num", dict(name="extrapol1"))
    if num["name"] != "extrapol1":
        return _dispatch1d_highorder(case, num)
    g, n = case["gamma"], case["n"]
    md = dict(name="euler1d", gamma=g)
    model = cases.build_model(md)
    idx = np.arange(n)
    rho = np.exp(np.array(case["lnrho"])[idx % len(case["lnrho"])])
    p = np.exp(np.array(case["lnp"])[idx % len(case["lnp"])])
    m = np.array(case["mach"])[idx % len(case["mach"])]
    c = np.sqrt(g * p / rho)
    mn = m.copy()
    # put the two end cells inside the regime of their condition (normal Mach, positive = leaving)
    mL = regime_velocity(case["bcL"], np.array([m[0]]))[0]
    mR = regime_velocity(case["bcR"], np.array([m[-1]]))[0]
    if n == 1:
        # one cell sees both boundaries: keep it at rest unless both regimes agree
        uu = -mL if (-mL) == mR else 0.0
        if case["bcL"] in ("insub_cbc", "outsub_qtot") or case["bcR"] in ("insub_cbc", "outsub_qtot"):
            mn[0] = uu
    else:
        mn[0] = -mL      # left boundary: outward normal is -x
        mn[-1] = mR
    u = mn * c
    prim = [rho, u, p]

    def par_for(bc, d, i, e, dp):
        inner = [rho[i:i + 1], u[i:i + 1], p[i:i + 1]]
        if bc == "dirichlet":
            return dict(prim=[math.exp(dp[0]), dp[1], math.exp(dp[2])])
        return make_params(g, bc, d, inner, e)
    parL = par_for(case["bcL"], -1, 0, case["eL"], case["dL"])
    parR = par_for(case["bcR"], 1, n - 1, case["eR"], case["dR"])
    bcL, bcR = dict(parL, type=case["bcL"]), dict(parR, type=case["bcR"])
    mesh = cases.build_mesh(dict(kind="uni", n=n, length=1.0, x0=0.0))
    disc = cases.build_disc(model, mesh, dict(name="extrapol1"), case["flux"], bcL, bcR)
    f = cases.build_field(model, mesh, cases.cons_from_prim(md, prim))
    disc.rhs(f)
    pL, pR = disc.pL, disc.pR
    # interior side of the boundary faces is the adjacent cell (first order)
    tolc = 1e-12 * (1 + float(np.max(m * m))) / (g - 1)
    for k in range(3):
        require(abs(pR[k][0] - prim[k][0]) <= tolc * (abs(prim[k][0]) + (c[0] if k == 1 else 0)), "dispatch-interior", "interior state of the left boundary face is not cell 0")
        require(abs(pL[k][n] - prim[k][-1]) <= tolc * (abs(prim[k][-1]) + (c[-1] if k == 1 else 0)), "dispatch-interior", "interior state of the right boundary face is not the last cell")
    w = 0.0
    nt = False
    for side, d, i, bc, par, st_ in (("left", -1.0, 0, case["bcL"], parL, [pL[k][0] for k in range(3)]), ("right", 1.0, n - 1, case["bcR"], parR, [pR[k][n] for k in range(3)])):
        inner = [np.array([float(pR[k][0])]) for k in range(3)] if side == "left" else [np.array([float(pL[k][n])]) for k in range(3)]
        state = [np.array([float(x)]) for x in st_]
        a, b = judge_euler(g, bc, d, inner, state, par, "fvm1d %s boundary" % side)
        nt = nt or a
        w = max(w, b)
    target(w, "bc-error/tol")
    return dict(nontrivial=nt, labels=["bcL:" + case["bcL"], "bcR:" + case["bcR"], "n=1" if n == 1 else "n>1"])


def _dispatch1d_highorder(case, num):
    """with an extrapolating reconstruction the condition is applied to the interior FACE state (what the numerical flux sees on the inner side
    of the boundary face): the exterior face state must meet its definition with respect to that state"""
    g = case["gamma"]
    n = max(case["n"], 3)
    md = dict(name="euler1d", gamma=g)
    model = cases.build_model(md)
    idx = np.arange(n)
    # moderate variations so that extrapolated face states stay admissible
    rho = np.exp(0.1 * np.array(case["lnrho"])[idx % len(case["lnrho"])])
    p = np.exp(0.1 * np.array(case["lnp"])[idx % len(case["lnp"])])
    m = 0.3 * np.array(case["mach"])[idx % len(case["mach"])]
    c = np.sqrt(g * p / rho)
    prim = [rho, m * c, p]
    tL = case["bcL"] if case["bcL"] in HIGH_ORDER_BC else "outsub_rh"
    tR = case["bcR"] if case["bcR"] in HIGH_ORDER_BC else "insub"
    mesh = cases.build_mesh(dict(kind="uni", n=n, length=1.0, x0=0.0))
    f = cases.build_field(model, mesh, cases.cons_from_prim(md, prim))
    # interior face states do not depend on the boundary type (boundary gradients are zero): read them from a first pass with copy conditions
    disc0 = cases.build_disc(model, mesh, num, case["flux"], {"type": "outsup"}, {"type": "outsup"})
    disc0.rhs(f)
    inL = [np.array([float(disc0.pR[k][0])]) for k in range(3)]
    inR = [np.array([float(disc0.pL[k][n])]) for k in range(3)]
    if not all(np.isfinite(x[0]) for x in inL + inR) or min(inL[0][0], inL[2][0], inR[0][0], inR[2][0]) <= 0:
        from vf.runner import Skip
        raise Skip("inadmissible_reconstruction (extrapolated face state outside the admissible set)")

    def par_for(bc, d, inner, e, dp):
        if bc == "dirichlet":
            return dict(prim=[math.exp(dp[0]), dp[1], math.exp(dp[2])])
        return make_params(g, bc, d, inner, e)
    parL, parR = par_for(tL, -1, inL, case["eL"], case["dL"]), par_for(tR, 1, inR, case["eR"], case["dR"])
    disc = cases.build_disc(model, mesh, num, case["flux"], dict(parL, type=tL), dict(parR, type=tR))
    disc.rhs(f)
    w, nt = 0.0, False
    for side, d, bc, par, inner_ref, inner, state in (("left", -1.0, tL, parL, inL, [disc.pR[k][0] for k in range(3)], [disc.pL[k][0] for k in range(3)]),
                                                      ("right", 1.0, tR, parR, inR, [disc.pL[k][n] for k in range(3)], [disc.pR[k][n] for k in range(3)])):
        inner = [np.array([float(x)]) for x in inner]
        for k in range(3):
            require(abs(inner[k][0] - inner_ref[k][0]) <= 1e-13 * (abs(inner_ref[k][0]) + (float(c[0]) if k == 1 else 0)), "dispatch-interior-face",
                    "the interior state of the %s boundary face depends on the boundary type" % side)
        a, b = judge_euler(g, bc, d, inner, [np.array([float(x)]) for x in state], par, "fvm1d %s boundary (%s reconstruction, interior FACE state)" % (side, num.get("limiter", num["name"])))
        nt = nt or a
        w = max(w, b)
    target(w, "bc-error/tol")
    return dict(nontrivial=nt, labels=["bcL:" + tL, "bcR:" + tR, "highorder:" + num.get("limiter", num["name"])])


# ---------------------------------------------------------------- dispatch, 2-D
def strat_dispatch2d(tier):
    names = sorted(cases.build_model(dict(name="euler2d"))._bcdict.dict.keys())
    side = st.sampled_from(names)
    return st.builds(lambda g, nx, ny, lx, ly, perx, pery, bl, br, bb, bt, r, p, m, a, e, fl, ang: dict(
        gamma=g, nx=nx, ny=ny, lx=lx, ly=ly, perx=perx, pery=pery, left=bl, right=br, bottom=bb, top=bt, lnrho=r, lnp=p, mach=m, ang=a, e=e, flux=fl, angle=ang),
        gen.GAMMAS, st.integers(1, 5), st.integers(1, 5), gen.logf(-1, 1), gen.logf(-1, 1), st.booleans(), st.booleans(), side, side, side, side,
        _vals(-2, 2, 1, 11), _vals(-2, 2, 1, 11), _vals(0, 2.5, 1, 11), _vals(-3.2, 3.2, 1, 11),
        st.lists(gen.f(0, 1), min_size=3, max_size=3), st.sampled_from(cases.flux_names(dict(name="euler2d"))),
        st.one_of(st.none(), gen.f(-180, 180))).flatmap(lambda c: st.builds(lambda k: dict(c, k2d=k), st.one_of(st.none(), st.none(), gen.f(-1, 1), st.sampled_from([-1.0, 1.0 / 3.0, 1.0]))))


def check_dispatch2d(case):
    g, nx, ny = case["gamma"], case["nx"], case["ny"]
    md = dict(name="euler2d", gamma=g)
    model = cases.build_model(md)
    mesh = cases.build_mesh2d(case)
    n = nx * ny
    idx = np.arange(n)
    hi = case.get("k2d") is not None          # extrapolating reconstruction: the condition applies to the interior FACE state
    amp = 0.1 if hi else 1.0                   # moderate variations keep extrapolated face states admissible
    rho = np.exp(amp * np.array(case["lnrho"])[idx % len(case["lnrho"])])
    p = np.exp(amp * np.array(case["lnp"])[idx % len(case["lnp"])])
    m = (0.4 if hi else 1.0) * np.array(case["mach"])[idx % len(case["mach"])]
    ang = np.array(case["ang"])[idx % len(case["ang"])]
    c = np.sqrt(g * p / rho)
    V = np.vstack([m * c * np.cos(ang), m * c * np.sin(ang)])
    num2 = dict(name="extrapol2dk", k=case["k2d"]) if hi else dict(name="extrapol2d1")
    f = cases.build_field(model, mesh, cases.cons_from_prim(md, [rho, V, p]))
    nxf = (nx + 1) * ny
    faces = {"left": np.arange(ny) * (nx + 1), "right": np.arange(ny) * (nx + 1) + nx, "bottom": nxf + np.arange(nx), "top": nxf + ny * nx + np.arange(nx)}
    face_inner = {}
    if hi:
        # interior face states do not depend on the type of a non-periodic side (its boundary difference is zero): first pass with copy conditions
        bl0 = {}
        for s_ in ("left", "right", "bottom", "top"):
            per = case["perx"] if s_ in ("left", "right") else case["pery"]
            bl0[s_] = {"type": "per"} if per else {"type": "outsup"}
        d0 = cases.build_disc2d(model, mesh, num2, case["flux"], bl0)
        d0.rhs(f)
        for s_ in faces:
            ins = d0.pR if s_ in ("left", "bottom") else d0.pL
            face_inner[s_] = [np.array(ins[0][faces[s_]], dtype=float), np.array(ins[1][:, faces[s_]], dtype=float), np.array(ins[2][faces[s_]], dtype=float)]
            if not (np.all(np.isfinite(face_inner[s_][0])) and np.all(face_inner[s_][0] > 0) and np.all(face_inner[s_][2] > 0)):
                from vf.runner import Skip
                raise Skip("inadmissible_reconstruction (extrapolated face state outside the admissible set)")
    # cells adjacent to each side, in the order of the boundary faces
    adj = {"left": np.arange(ny) * nx, "right": np.arange(ny) * nx + nx - 1, "bottom": np.arange(nx), "top": (ny - 1) * nx + np.arange(nx)}
    types = {}
    for s_ in ("left", "right", "bottom", "top"):
        per = case["perx"] if s_ in ("left", "right") else case["pery"]
        types[s_] = "per" if per else case[s_]
    # regimes: outsub needs nothing; insub needs p_int <= ptot: handled by the parameters
    pars, bclist = {}, {}
    for s_ in types:
        bc = types[s_]
        if bc == "per":
            bclist[s_] = {"type": "per"}
            continue
        cells = adj[s_]
        inner = face_inner[s_] if hi else [rho[cells], V[:, cells], p[cells]]
        nrm = np.array([[NORMALS[s_][0]] * len(cells), [NORMALS[s_][1]] * len(cells)])
        if bc == "dirichlet":
            par = dict(prim=[1.3, np.array([[0.2], [-0.1]]), 0.9])
        else:
            par = make_params(g, bc, nrm, inner, case["e"])
            if bc == "insup" and case["angle"] is not None:
                a_ = math.radians(case["angle"])
                if math.cos(a_) * NORMALS[s_][0] + math.sin(a_) * NORMALS[s_][1] < -1e-6:   # only angles that enter through this side
                    par["angle"] = case["angle"]
        pars[s_] = par
        bclist[s_] = dict(par, type=bc)
    disc = cases.build_disc2d(model, mesh, num2, case["flux"], bclist)
    disc.rhs(f)
    w = 0.0
    nt = False
    tolc = 1e-12 * (1 + float(np.max(m * m))) / (g - 1)
    for s_, bc in types.items():
        io = faces[s_]
        inside, outside = (disc.pR, disc.pL) if s_ in ("left", "bottom") else (disc.pL, disc.pR)
        cells = adj[s_]
        inner_ref = [rho[cells], V[:, cells], p[cells]]
        inner = [np.asarray(inside[0][io], dtype=float), np.asarray(inside[1][:, io], dtype=float), np.asarray(inside[2][io], dtype=float)]
        if hi:
            inner_ref = face_inner[s_]
        require(np.allclose(inner[0], inner_ref[0], rtol=tolc, atol=0) and np.allclose(inner[2], inner_ref[2], rtol=tolc, atol=0)
                and np.all(np.abs(inner[1] - inner_ref[1]) <= tolc * (np.abs(inner_ref[1]) + c[cells])), "dispatch-interior",
                "interior state on the %s boundary faces is not %s" % (s_, "independent of the boundary type" if hi else "the adjacent cell"))
        state = [np.asarray(outside[0][io], dtype=float), np.asarray(outside[1][:, io], dtype=float), np.asarray(outside[2][io], dtype=float)]
        if bc == "per" and hi:
            # the exterior state of a periodic face is the interior face state of the opposite side
            opp = {"left": "right", "right": "left", "bottom": "top", "top": "bottom"}[s_]
            ins_o = disc.pR if opp in ("left", "bottom") else disc.pL
            io_o = faces[opp]
            require(np.array_equal(state[0], ins_o[0][io_o]) and np.array_equal(state[1], ins_o[1][:, io_o]) and np.array_equal(state[2], ins_o[2][io_o]), "dispatch-periodic",
                    "exterior state of the periodic %s faces is not the interior face state of the opposite side" % s_)
            continue
        if bc == "per":
            # the exterior state of a periodic face is the cell on the opposite side
            opp = {"left": "right", "right": "left", "bottom": "top", "top": "bottom"}[s_]
            oc = adj[opp]
            require(np.allclose(state[0], rho[oc], rtol=tolc, atol=0) and np.allclose(state[2], p[oc], rtol=tolc, atol=0)
                    and np.all(np.abs(state[1] - V[:, oc]) <= tolc * (np.abs(V[:, oc]) + c[oc])), "dispatch-periodic",
                    "exterior state of the periodic %s faces is not the opposite cell" % s_)
            continue
        nrm = np.array([[NORMALS[s_][0]] * len(io), [NORMALS[s_][1]] * len(io)])
        a, b = judge_euler(g, bc, nrm, inner, state, pars[s_], "fvm2d %s boundary" % s_)
        nt = nt or a
        w = max(w, b)
    target(w, "bc-error/tol")
    return dict(nontrivial=nt or all(t == "per" for t in types.values()) is False, labels=["%s:%s" % (k, v) for k, v in sorted(types.items())] + ["nx=%d" % min(nx, 2), "ny=%d" % min(ny, 2), "highorder" if hi else "firstorder"])


SUBCHECKS = [
    SubCheck("direct1d", check_direct1d, strategy=strat_direct1d, examples={"quick": 700, "thorough": 4000}, shards={"quick": 3, "thorough": 12}),
    SubCheck("direct2d", check_direct2d, strategy=strat_direct2d, examples={"quick": 500, "thorough": 3000}, shards={"quick": 2, "thorough": 8}),
    SubCheck("wall_no_flux", check_wall, strategy=strat_wall, examples={"quick": 300, "thorough": 2000}, shards={"quick": 2, "thorough": 8}),
    SubCheck("dirichlet_all_models", check_dirichlet, strategy=strat_dirichlet, examples={"quick": 100, "thorough": 500}, shards={"quick": 1, "thorough": 2}),
    SubCheck("dispatch1d", check_dispatch1d, strategy=strat_dispatch1d, examples={"quick": 400, "thorough": 2500}, shards={"quick": 3, "thorough": 12}),
    SubCheck("dispatch2d", check_dispatch2d, strategy=strat_dispatch2d, examples={"quick": 250, "thorough": 1500}, shards={"quick": 3, "thorough": 12}),
]

META = dict(
    level_text="Generated search over interior states, parameters, sides and gamma for every boundary-condition name registered at run time (1-D Euler, 2-D Euler, shallow water, "
               "dirichlet of every model); each returned state is judged against the physical definition of its condition, and the states the 1-D/2-D discretisations actually "
               "place on boundary faces are judged the same way with the geometric outward normal. Exploration only.",
    level_note="trusted: numpy; the definitions coded in vf/props/c16.py; regimes derived from the definitions; tolerance 1e-11/(gamma-1)",
    technique="property-based testing (Hypothesis given): validity predicates (definitions) over generated interior states and parameters",
)
