"""C14 - periodic boundaries are seamless (translation invariance on uniform periodic meshes).

Metamorphic relation stated by the property: rhs(roll(q)) = roll(rhs(q)) and solve(roll(q0)) = roll(solve(q0)).
"""
import numpy as np
from hypothesis import strategies as st

from vf import cases, gen, sim
from vf.runner import Skip, SubCheck, require, target

RULE = ("1-D: model (convection, burgers, shallowwater, euler1d, nozzle with constant section) x uniform periodic mesh of 2..30 cells x every registered flux x every reconstruction "
        "x every integrator x 0..6 steps x shift k; 2-D: nx,ny in 2..8, every 2-D flux and reconstruction, explicit integrators, shifts (kx,ky). non-trivial = shift not a multiple "
        "of the period and data not shift-invariant; distinct = distinct canonical JSON")
ASSUMPTIONS = ["tolerance 1e-12 x natural scale x steps for explicit integrators (x measured amplification of a 1e-7 perturbation when the scheme itself is unstable), 1e-7 for implicit ones",
               "bitwise equality is not demanded (linspace cell sizes differ by an ulp)",
               "Burgers: the (repaired) upwind flux is discontinuous exactly at a sonic expansion tie uL = -uR < 0; histories that come within 1e-9 of such a tie after the first step are skipped"]


def burgers_tie(u):
    u = np.asarray(u, dtype=float)
    l, r = u, np.roll(u, -1)
    m = float(np.max(np.abs(u))) + 1e-300
    return bool(np.any((l < 0) & (r > 0) & (np.abs(l + r) <= 1e-9 * m)))


def _models():
    return st.one_of(gen.model_convection(), gen.model_burgers(), gen.model_shallowwater(), gen.model_euler1d(), gen.model_nozzle(varying=False))


def strat1d(tier):
    nmax = 20 if tier == "quick" else 30
    ex, im = cases.integrator_names()

    def cfg(md):
        fmd = md if md["name"] != "nozzle" else dict(name="euler1d")
        lin = md["name"] == "convection"
        explicit = st.builds(lambda i, c: (i, c), st.sampled_from(ex), gen.f(0.05, 0.6))
        implicit = st.builds(lambda i, c: (i, c), st.sampled_from(im), gen.logf(-1, 1.5) if lin else gen.f(0.05, 2.0))
        # rough: 0 smooth data + any reconstruction; 1 rough data + robust reconstruction; 2 rough (steeper) data + any reconstruction: extrapolated face states may then be
        # inadmissible - the operator is still a function of the data only, so even its non-finite entries must move with the shift (operator level only)
        def mk(n, L, x0, rough, num_r, num_s, s_r, s_s, s_x, fl, ic, ns, k, dtl, mid, nm, icm):
            if mid and rough != 2:
                # one case in five: a mid-size mesh (40..100 cells, too large for the small class, small enough to be stepped) with an implicit integrator
                n, ic, ns = nm, icm, max(1, ns)
            return dict(model=md, mesh=dict(kind="uni", n=n, length=L, x0=x0), num=(num_r if rough == 1 else num_s),
                        state=(s_s if rough == 0 else s_r if rough == 1 else s_x), flux=fl, integ=ic[0], cfl=ic[1],
                        nsteps=(ns if rough != 2 else 0), shift=k, dtlocal=(dtl and ic[0] != "gear"), steep=(rough == 2))
        return st.builds(mk,
                         st.one_of(st.integers(2, 4), st.integers(2, nmax), st.integers(2, nmax), st.sampled_from([129, 300])), st.one_of(gen.logf(-1, 1), gen.logf(-1, 1), gen.logf(-9, 4)), st.one_of(st.just(0.0), gen.f(-2, 2)), st.sampled_from([0, 0, 1, 1, 2]), gen.num_robust(), gen.num_any(),
                         gen.state_for(md, True, lnrange=1.0, machmax=1.5), gen.state_for(md, False, lnrange=0.7, machmax=1.2, smooth_amp=0.05), gen.state_for(md, True, lnrange=2.5, machmax=1.5),
                         st.sampled_from(cases.flux_names(fmd)), st.one_of(explicit, explicit, implicit), st.integers(0, 6), st.integers(-40, 40), st.sampled_from([False, False, True]),
                         st.sampled_from([0, 0, 0, 0, 1]), st.integers(40, 100), implicit)
    return _models().flatmap(cfg)


def strat1d_large(tier):
    """a few LARGE periodic problems stepped once or twice (implicit integrators: systems of 2000-3100 unknowns), all models"""
    ex, im = cases.integrator_names()
    sizes = {1: [700, 2100, 3000], 2: [300, 1025, 1500], 3: [129, 700, 1000]}

    def cfg(md):
        fmd = md if md["name"] != "nozzle" else dict(name="euler1d")
        neq = cases.model_neq(md)
        lin = md["name"] == "convection"
        explicit = st.builds(lambda i, c: (i, c, 2), st.sampled_from(ex), gen.f(0.05, 0.6))
        implicit = st.builds(lambda i, c: (i, c, 1), st.sampled_from(im), gen.logf(-1, 1.5) if lin else gen.f(0.05, 2.0))
        return st.builds(lambda n, L, num, s_s, fl, ic, k: dict(model=md, mesh=dict(kind="uni", n=n, length=L, x0=0.0), num=num, state=s_s, flux=fl, integ=ic[0], cfl=ic[1], nsteps=ic[2],
                                                                 shift=k, dtlocal=False, large_solve=True),
                         st.sampled_from(sizes[neq]), gen.logf(-1, 1), st.one_of(gen.num_first(), gen.num_any()), gen.state_for(md, False, lnrange=0.7, machmax=1.2, smooth_amp=0.05),
                         st.sampled_from(cases.flux_names(fmd)), st.one_of(explicit, implicit, implicit), st.integers(-2000, 2000))
    return _models().flatmap(cfg)


def _roll(data, k):
    return [np.roll(np.asarray(d, dtype=float), k, axis=-1) for d in data]


def check1d(case):
    md = case["model"]
    if cases.is_implicit(case["integ"]) and case.get("units"):
        case = dict(case, units=[case["units"][0], 0])      # LU with partial pivoting is not scaling invariant: implicit runs keep the density unit only (see C01)
    c = dict(case, bcL={"type": "per"}, bcR={"type": "per"})
    P = sim.problem1d(c)
    n = P.n
    k = 1 + abs(case["shift"]) % (n - 1) if n > 1 else 0          # a shift that is not a multiple of the period, by construction
    if case["shift"] < 0:
        k = -k
    if md["name"] == "burgers" and np.all(P.prim[0] == 0):
        raise Skip("burgers data identically zero")
    qA = P.cons
    qB = _roll(qA, k)
    fA = cases.build_field(P.model, P.mesh, qA)
    fB = cases.build_field(P.model, P.mesh, qB)
    watch = sim.TieWatch(P.disc) if md["name"] == "burgers" else None
    rA = [np.array(x, dtype=float) for x in P.disc.rhs(fA)]
    rB = [np.array(x, dtype=float) for x in P.disc.rhs(fB)]
    nonfinite = not all(np.all(np.isfinite(x)) for x in rA)
    if nonfinite and (cases.num_is_first_order(case["num"]) or not case.get("steep")):
        sim.nonfinite_operator(case["num"])
    if nonfinite:
        # inadmissible extrapolated face states: the non-finite entries must shift with the data, the finite ones are compared as usual
        for i in range(len(rA)):
            require(np.array_equal(np.isfinite(np.roll(rA[i], k)), np.isfinite(rB[i])), "rhs-nonfinite-pattern", "equation %d: the non-finite entries of the residual do not shift with the data (%s/%s, %s, n=%d)"
                    % (i, md["name"], case["flux"], case["num"].get("limiter", case["num"]["name"]), P.n))
        okA = [np.isfinite(x) for x in rA]
        rA = [np.where(m_, x, 0.0) for m_, x in zip(okA, rA)]
        rB = [np.where(np.roll(m_, k), x, 0.0) for m_, x in zip(okA, rB)]
    if watch is not None and watch.hit and not cases.num_is_first_order(case["num"]):
        raise Skip("burgers sonic-expansion tie (discontinuous flux)")     # reconstructed face values: round-off decides the side of the tie
    if watch is not None:
        watch.hit = False
    fs = [float(np.max(x)) for x in sim.natural_scales(P.smd, P.prim)]
    dx = float(np.min(P.dxf))
    # the cells of a "uniform" mesh whose origin is far from 0 (in cell sizes) are equal only to ulp(x)/dx: the faces x0 + i*dx are rounded
    meshtol = 8 * 2.2e-16 * float(np.max(np.abs(P.xf))) / dx
    worst = 0.0
    for i in range(len(rA)):
        e = float(np.max(np.abs(np.roll(rA[i], k) - rB[i]))) * dx / fs[i]
        require(np.array_equal(np.isnan(np.roll(rA[i], k)), np.isnan(rB[i])), "rhs-nan-pattern", "NaN pattern of the residual does not shift with the data")
        # steep data (cell-to-cell ratios up to e^5): extrapolated face values, and with them the effect of the unequal rounded cell sizes, are ~20x larger
        require(e <= ((1e-12 + meshtol) if not case.get("steep") else (1e-10 + 20 * meshtol)), "rhs-shift", "equation %d: rhs(roll(q,%d)) differs from roll(rhs(q),%d) by %.3g x scale/dx (%s/%s, %s, n=%d)"
                % (i, k, k, e, md["name"], case["flux"], case["num"].get("limiter", case["num"]["name"]), n))
        worst = max(worst, e)
    target(worst, "rhs-shift-error")
    implicit = cases.is_implicit(case["integ"])
    labels = ["model:" + md["name"], "integ:" + case["integ"], "num:" + case["num"].get("limiter", case["num"]["name"]), "n:%s" % (n if n <= 3 else ">3"), "steps:%d" % min(case["nsteps"], 2)]
    nt = (k % n != 0) and any(not np.array_equal(a, b) for a, b in zip(qA, qB))
    large = bool(case.get("large_solve"))
    if nonfinite:
        return dict(nontrivial=nt, labels=labels + ["nonfinite-entries"])
    if case["nsteps"] == 0 or (n > 100 and not large):          # large meshes: operator only, except in the dedicated sub-check
        return dict(nontrivial=nt, labels=labels + (["big"] if n > 100 else []))
    qsc, _a = sim.state_scales(P.smd, P.prim)
    mk = lambda: cases.build_integrator(case["integ"], P.mesh, P.disc)
    dtl = bool(case.get("dtlocal"))
    directives = {"dtlocal": True} if dtl else {}
    # step by step exactly as solve() does, watching for the discontinuous Burgers tie
    sA, sB = mk(), mk()
    gA, gB = fA.copy(), fB.copy()

    for s_ in range(case["nsteps"]):
        if dtl and not (np.all(np.isfinite(P.disc.calc_timestep(gA, case["cfl"]))) and np.all(np.isfinite(P.disc.calc_timestep(gB, case["cfl"])))):
            raise Skip("infinite local time step (Burgers cell with u = 0 under dtlocal)")
        sim.advance(sA, P.disc, gA, case["cfl"], dtlocal=dtl)
        sim.advance(sB, P.disc, gB, case["cfl"], dtlocal=dtl)
        if not (sim.admissible(P.smd, gA.data) and sim.admissible(P.smd, gB.data)):
            raise Skip("left_admissible_set")
        # a tie seen in the very first evaluation of first-order data is exact in both runs (same numbers); later ones are not
        if watch is not None and watch.hit and (s_ > 0 or not cases.num_is_first_order(case["num"]) or case["integ"] not in ("explicit", "forwardeuler")):
            raise Skip("burgers sonic-expansion tie (discontinuous flux)")
        if watch is not None:
            watch.hit = False
    if not (sim.admissible(P.smd, gA.data) and sim.admissible(P.smd, gB.data)):
        raise Skip("left_admissible_set")
    amp = sim.amplification(mk, fA, qsc, case["cfl"], case["nsteps"], directives)
    if not amp <= 1e3:
        raise Skip("unstable configuration (round-off amplified > 1e3)")
    tol = (1e-6 if implicit else (1e-12 + meshtol) * case["nsteps"]) * max(1.0, amp)      # implicit: noise of the finite-difference Jacobian (~1e-8 relative) x CFL x steps
    for i in range(len(qA)):
        e = float(np.max(np.abs(np.roll(gA.data[i], k) - gB.data[i]))) / qsc[i]
        require(e <= tol, "solve-shift", "variable %d: stepping roll(q0,%d) %d times differs from roll of the unshifted run by %.3g (relative; tol %.3g; %s, cfl=%g, %s/%s, %s, n=%d)"
                % (i, k, case["nsteps"], e, tol, case["integ"], case["cfl"], md["name"], case["flux"], case["num"].get("limiter", case["num"]["name"]), n))
    require(abs(gA.time - gB.time) <= 10 * tol * abs(gA.time), "solve-shift-time", "shifted run ends at time %r, unshifted at %r" % (gB.time, gA.time))
    if large:
        return dict(nontrivial=nt, labels=labels + ["implicit" if implicit else "explicit", "unknowns>=2000" if n * len(qA) >= 2000 else "unknowns<2000"])
    # and through solve() itself
    uA, uB = mk(), mk()
    hv = sim.solver_history(case)
    sim.preuse_solver(P, uA, case, case["cfl"], variant=hv)          # solver objects with a past (the same one: see sim.preuse_solver); solve() starts afresh
    sim.preuse_solver(P, uB, case, case["cfl"], variant=hv)
    rA_ = uA.solve(fA, case["cfl"], stop={"maxit": case["nsteps"]}, directives=directives)[-1]
    rB_ = uB.solve(fB, case["cfl"], stop={"maxit": case["nsteps"]}, directives=directives)[-1]
    if watch is not None:
        watch.release()
    for i in range(len(qA)):
        e = float(np.max(np.abs(np.roll(rA_.data[i], k) - rB_.data[i]))) / qsc[i]
        require(e <= tol, "solve-shift", "variable %d: solve(roll(q0,%d)) differs from roll(solve(q0)) by %.3g (relative; tol %.3g; %s, cfl=%g, %s/%s, %s, n=%d, %d steps)"
                % (i, k, e, tol, case["integ"], case["cfl"], md["name"], case["flux"], case["num"].get("limiter", case["num"]["name"]), n, case["nsteps"]))
    return dict(nontrivial=nt, labels=labels + ["implicit" if implicit else "explicit", "dtlocal" if dtl else "dtglobal"])


# ---------------------------------------------------------------- 2-D
def strat2d(tier):
    nmax = 5 if tier == "quick" else 8
    ex, im = cases.integrator_names()
    return st.builds(lambda md, nx, ny, lx, ly, rough, num, fl, s_r, s_s, integ, cfl, ns, kx, ky: dict(
        model=md, mesh2d=dict(nx=nx, ny=ny, lx=lx, ly=ly), num=(dict(name="extrapol2d1") if rough else num), flux=fl, state=(s_r if rough else s_s), integ=integ, cfl=cfl, nsteps=ns, kx=kx, ky=ky),
        gen.model_euler2d(), st.integers(2, nmax), st.integers(2, nmax), gen.logf(-1, 1), gen.logf(-1, 1), st.booleans(), gen.num2d_any(),
        st.sampled_from(cases.flux_names(dict(name="euler2d"))), gen.state_euler2d(True, lnrange=1.0, machmax=1.5), gen.state_euler2d(False, lnrange=0.7, machmax=1.2, smooth_amp=0.05),
        st.sampled_from(ex), gen.f(0.05, 0.5), st.integers(0, 4), st.integers(-9, 9), st.integers(-9, 9))


def _roll2(d, nx, ny, kx, ky):
    d = np.asarray(d, dtype=float)
    if d.ndim == 2:
        return np.vstack([_roll2(d[0], nx, ny, kx, ky), _roll2(d[1], nx, ny, kx, ky)])
    return np.roll(np.roll(d.reshape(ny, nx), kx, axis=1), ky, axis=0).reshape(-1)


def check2d(case):
    c = dict(case, bc={t: {"type": "per"} for t in ("left", "right", "bottom", "top")})
    P = sim.problem2d(c)
    nx, ny, kx, ky = P.nx, P.ny, case["kx"], case["ky"]
    if kx % nx == 0 and ky % ny == 0:
        kx = 1
    qA = P.cons
    qB = [_roll2(d, nx, ny, kx, ky) for d in qA]
    fA = cases.build_field(P.model, P.mesh, qA)
    fB = cases.build_field(P.model, P.mesh, qB)
    rA = P.disc.rhs(fA)
    rA = [np.array(x, dtype=float) for x in rA]
    rB = [np.array(x, dtype=float) for x in P.disc.rhs(fB)]
    if not all(np.all(np.isfinite(x)) for x in rA):
        sim.nonfinite_operator(case["num"])
    fs = [float(np.max(x)) for x in sim.natural_scales(P.md, P.prim)]
    dmin = min(P.dx, P.dy)
    for i in range(3):
        e = float(np.max(np.abs(_roll2(rA[i], nx, ny, kx, ky) - rB[i]))) * dmin / fs[i]
        require(e <= 1e-12, "rhs-shift-2d", "equation %d: 2-D rhs does not commute with the shift (%d,%d): %.3g x scale/d (%s/%s, %dx%d)" % (i, kx, ky, e, case["flux"], case["num"]["name"], nx, ny))
    labels = ["flux:" + case["flux"], "num:" + case["num"]["name"], "min:%d" % min(nx, ny), "shift:" + ("x" if kx % nx else "") + ("y" if ky % ny else ""), "integ:" + case["integ"]]
    nt = (kx % nx != 0 or ky % ny != 0) and any(not np.array_equal(a, b) for a, b in zip(qA, qB))
    if case["nsteps"] == 0:
        return dict(nontrivial=nt, labels=labels)
    qsc, _a = sim.state_scales(P.md, P.prim)
    mk = lambda: cases.build_integrator(case["integ"], P.mesh, P.disc)
    # step by step first: a run that leaves the admissible set (negative pressure -> NaN) is outside the domain, in whichever of the two runs round-off
    # makes it happen first; if only one of them leaves it while the other keeps a comfortable margin, that is an asymmetry
    sA, sB = mk(), mk()
    gA, gB = fA.copy(), fB.copy()
    for s_ in range(case["nsteps"]):
        sim.advance(sA, P.disc, gA, case["cfl"])
        sim.advance(sB, P.disc, gB, case["cfl"])
        okA, okB = sim.admissible(P.md, gA.data), sim.admissible(P.md, gB.data)
        if not (okA and okB):
            good = gA if okA else (gB if okB else None)
            if good is not None:
                pg = cases.prim_from_cons(P.md, good.data)
                require(float(np.min(pg[2])) <= 1e-3 * float(np.max(pg[2])) or float(np.min(pg[0])) <= 1e-3 * float(np.max(pg[0])), "admissibility-shift-2d",
                        "after %d steps only one of the two runs (shifted / unshifted) has left the admissible set while the other is far from its boundary" % (s_ + 1))
            raise Skip("left_admissible_set")
    rA_ = mk().solve(fA, case["cfl"], stop={"maxit": case["nsteps"]})[-1]
    rB_ = mk().solve(fB, case["cfl"], stop={"maxit": case["nsteps"]})[-1]
    if not all(np.all(np.isfinite(d)) for d in rA_.data):
        raise Skip("left_admissible_set")
    amp = sim.amplification(mk, fA, qsc, case["cfl"], case["nsteps"])
    if not amp <= 1e3:
        raise Skip("unstable configuration (round-off amplified > 1e3)")
    tol = 1e-12 * case["nsteps"] * max(1.0, amp)
    for i in range(3):
        e = float(np.max(np.abs(_roll2(rA_.data[i], nx, ny, kx, ky) - rB_.data[i]))) / qsc[i]
        require(e <= tol, "solve-shift-2d", "variable %d: 2-D solve does not commute with the shift (%d,%d): %.3g relative (tol %.3g; %s, cfl=%g, %s/%s, %dx%d, %d steps)"
                % (i, kx, ky, e, tol, case["integ"], case["cfl"], case["flux"], case["num"]["name"], nx, ny, case["nsteps"]))
    require(abs(rA_.time - rB_.time) <= 1e-12 * abs(rA_.time), "solve-shift-time-2d", "shifted 2-D run ends at a different time")
    return dict(nontrivial=nt, labels=labels)


SUBCHECKS = [
    SubCheck("shift1d", check1d, strategy=sim.with_units(strat1d), examples={"quick": 420, "thorough": 2000}, shards={"quick": 6, "thorough": 16}),
    SubCheck("shift1d_large", check1d, strategy=strat1d_large, examples={"quick": 4, "thorough": 8}, shards={"quick": 5, "thorough": 12}),
    SubCheck("shift2d", check2d, strategy=sim.with_units(strat2d), examples={"quick": 150, "thorough": 1000}, shards={"quick": 4, "thorough": 16}),
]

META = dict(
    level_text="Generated search over data, shifts, mesh sizes down to 2 cells, all models/fluxes/reconstructions/integrators: the operator and complete runs of 0..6 steps must commute "
               "with cyclic shifts in 1-D and with (kx,ky) shifts in 2-D. Exploration only.",
    level_note="trusted: numpy.roll; tolerances 1e-12 x scale x steps (explicit, x measured amplification), 1e-7 (implicit)",
    technique="property-based testing (Hypothesis given): metamorphic relation (cyclic shift commutes with operator and solver)",
)
