"""C20 - meshes are valid partitions with consistent connectivity (flowdyn.mesh, flowdyn.mesh2d, meshbase).

Oracle: geometry recomputed from the constructor arguments (face positions, midpoints, sizes, exact rational
zone counts, geometric enumeration of the 2-D faces in the documented order); nothing is taken from the mesh
object except what is being judged.
"""
from fractions import Fraction

import numpy as np
from hypothesis import strategies as st

from vf import cases, gen
from vf.runner import SubCheck, require

EPS = np.finfo(float).eps
RULE = ("1-D: constructor (unimesh / refinedmesh / morphedmesh) x ncell>=1 x length over 6 decades x origin x ratio "
        "10^[-2,2] x zone proportions (integers, dyadic and decimal fractions) x monotone morphing family; 2-D: nx,ny>=1, "
        "lx,ly over 4 decades. non-trivial = non-uniform 1-D mesh with ncell>=2 (refined with ratio!=1, morphed) or a "
        "2-D mesh with nx!=ny or lx!=ly; distinct = distinct canonical JSON")
ASSUMPTIONS = ["zone proportions are read as the decimal numbers the caller wrote (Fraction(str(x))) when deciding whether "
               "ncell*a/(a+b) is a whole number", "float tolerances: 4 ulp on end points and midpoints, 1e-9 relative on zone uniformity/ratio"]


# ---------------------------------------------------------------- generators
def _prop():
    return st.one_of(st.integers(1, 9), st.sampled_from([0.25, 0.5, 0.75, 1.5, 2.5]),
                     st.builds(lambda k: k / 10.0, st.integers(1, 30)), st.builds(lambda k: k / 100.0, st.integers(1, 99)))


def strat1d(tier):
    nmax = 120 if tier == "quick" else 1000
    n = st.one_of(st.integers(1, 12), st.integers(1, nmax))
    L = gen.logf(-3, 3)
    x0 = st.one_of(st.just(0.0), gen.f(-10, 10), st.sampled_from([1.0, -1.0, 0.1]))
    uni = st.builds(lambda n, L, x0: dict(kind="uni", n=n, length=L, x0=x0), n, L, x0)
    ref = st.builds(lambda n, L, r, a, b: dict(kind="refined", n=n, length=L, ratio=r, a=a, b=b),
                    n, L, st.one_of(gen.logf(-2, 2), st.sampled_from([0.5, 1.0, 2.0, 3.0])), _prop(), _prop())
    law = st.one_of(st.just(("identity", 0.0)), st.builds(lambda a: ("sine", a), gen.f(-0.9, 0.9)),
                    st.builds(lambda p: ("power", p), gen.f(0.5, 3.0)),
                    st.builds(lambda b: ("exp", b), st.one_of(gen.f(-4, -0.1), gen.f(0.1, 4))))
    mor = st.builds(lambda n, L, x0, lw: dict(kind="morph", n=n, length=L, x0=x0, law=lw[0], param=lw[1]), n, L, x0, law)
    # morphings that do NOT map the interval onto itself (the faces are then the image of it), with end displacements from 1e-12 to 1e-1 of the length,
    # also far from the origin (|x0| up to 1e4 lengths) where a displacement is tiny compared with the coordinates
    sgn = st.sampled_from([1.0, -1.0])
    small = st.builds(lambda s_, e: s_ * 10.0 ** e, sgn, gen.f(-12, -1))
    law2 = st.one_of(st.builds(lambda e, d: ("affine", [e, d]), st.one_of(st.just(0.0), small), st.one_of(st.just(0.0), small)),
                     st.builds(lambda b: ("wave", b), st.one_of(gen.f(-0.9, 0.9), small)))
    far = st.one_of(x0, st.builds(lambda s_, e: s_ * 10.0 ** e, sgn, gen.f(0, 4)))
    mor2 = st.builds(lambda n, L, k, lw: dict(kind="morph", n=n, length=L, x0=k * L if abs(k) > 10 else k, law=lw[0], param=lw[1]), n, L, far, law2)
    data = st.lists(gen.sfloat(-3, 1), min_size=1, max_size=7)
    # the same meshes in other length units (nanometres to megametres; the origin is expressed in the same unit)
    unit = st.one_of(st.just(1.0), st.just(1.0), st.just(1.0), gen.logf(-6, 3))
    return st.builds(lambda m, d, c, u: dict(mesh=(m if u == 1.0 else cases.scale_mesh(m, u)), data=d, const=c), st.one_of(uni, ref, ref, mor, mor2), data, gen.sfloat(-3, 2), unit)


def strat2d(tier):
    nmax = 12 if tier == "quick" else 40
    # mostly small grids; a quarter of the cases have one long axis (up to 300 cells: counts that come out of float arithmetic go wrong at sparse sizes)
    dims = st.one_of(st.tuples(st.integers(1, nmax), st.integers(1, nmax)), st.tuples(st.integers(1, nmax), st.integers(1, nmax)), st.tuples(st.integers(1, nmax), st.integers(1, nmax)),
                     st.tuples(st.integers(13, 300), st.integers(1, 6)), st.tuples(st.integers(1, 6), st.integers(13, 300)))
    # one case in sixteen is a large grid (10^4 .. 10^5 cells and more faces than cells: index tables in a compact integer type overflow there)
    large = st.one_of(st.tuples(st.integers(90, 360), st.integers(90, 360)), st.tuples(st.integers(8, 40), st.integers(700, 3000)), st.tuples(st.integers(700, 3000), st.integers(8, 40)))
    dims = st.one_of(*([dims] * 15 + [large]))
    return st.builds(lambda d, lx, ly, c: dict(nx=d[0], ny=d[1], lx=lx, ly=ly, const=c), dims, st.one_of(gen.logf(-2, 2), gen.logf(-9, 6)), st.one_of(gen.logf(-2, 2), gen.logf(-9, 6)), gen.sfloat(-3, 2))


# ---------------------------------------------------------------- predicates
def check1d(case):
    md = case["mesh"]
    m = cases.build_mesh(md)
    cases.build_mesh(dict(kind="uni", n=md["n"] + 3, length=2.5 * md["length"], x0=1.0))          # decoys built after the mesh under test
    cases.build_mesh(dict(kind="refined", n=md["n"] + 2, length=0.5 * md["length"], ratio=3.0, a=1, b=2))
    n = md["n"]
    kind = md["kind"]
    xf = np.array(m.xf, dtype=float, copy=True)          # copies: the mesh is read again after every query has been used
    labels = ["kind:" + kind, "n:" + ("1" if n == 1 else "2-9" if n < 10 else "10-99" if n < 100 else ">=100")]
    require(m.ncell == n, "ncell", "mesh.ncell = %r, requested %r" % (m.ncell, n))
    require(xf.shape == (n + 1,), "nfaces", "%d faces for ncell = %d" % (xf.size, n))
    require(m.nbfaces() == n + 1, "nbfaces", "nbfaces() = %r for ncell = %d" % (m.nbfaces(), n))
    require(np.all(np.isfinite(xf)), "finite", "non-finite face coordinate")
    require(np.all(np.diff(xf) > 0), "increasing", "faces not strictly increasing: min diff %r" % float(np.min(np.diff(xf))))
    L = md["length"]
    x0 = md.get("x0", 0.0) if kind != "refined" else 0.0
    scale = max(abs(x0), abs(L))
    if kind == "morph":
        mf = cases.morph_fn(md)
        lo, hi = float(mf(x0)), float(mf(x0 + L))
        expected = np.asarray(mf(x0 + L * np.arange(n + 1) / n))
        require(np.max(np.abs(xf - expected)) <= 1e-12 * scale + 1e-12 * np.max(np.abs(expected)), "morph-image",
                "faces are not the image of the uniform faces: max dev %r" % float(np.max(np.abs(xf - expected))))
    else:
        lo, hi = x0, x0 + L
    require(abs(xf[0] - lo) <= 4 * EPS * scale, "first-face", "first face %r, expected %r" % (float(xf[0]), lo))
    require(abs(xf[-1] - hi) <= 4 * EPS * scale, "last-face", "last face %r, expected %r" % (float(xf[-1]), hi))
    # centres
    xc = np.array(m.centers(), dtype=float, copy=True)
    require(xc.shape == (n,), "ncenters", "centers() has shape %r" % (xc.shape,))
    mid = 0.5 * (xf[:-1] + xf[1:])
    require(np.max(np.abs(xc - mid)) <= 4 * EPS * max(abs(lo), abs(hi)), "midpoints", "centres are not face midpoints (max dev %r)" % float(np.max(np.abs(xc - mid))))
    require(np.array_equal(np.asarray(m.xc), xc), "xc-attr", "mesh.xc differs from centers()")
    # volumes
    vol = np.array(m.vol(), dtype=float, copy=True)
    dxf = xf[1:] - xf[:-1]
    require(vol.shape == (n,), "nvol", "vol() has shape %r for %d cells" % (vol.shape, n))
    require(np.all(vol > 0), "vol-positive", "non-positive volume")
    require(np.max(np.abs(vol - dxf)) <= 4 * EPS * max(abs(lo), abs(hi)), "vol-is-face-diff", "vol() differs from face spacing by %r" % float(np.max(np.abs(vol - dxf))))
    require(np.array_equal(np.asarray(m.dx(), dtype=float), vol), "dx-is-vol", "dx() differs from vol()")
    require(abs(np.sum(vol) - (xf[-1] - xf[0])) <= 4 * EPS * (n + 1) * max(abs(lo), abs(hi)), "vol-sum", "sum of volumes %r != domain length %r" % (float(np.sum(vol)), float(xf[-1] - xf[0])))
    if kind != "morph":
        require(abs(np.sum(vol) - L) <= 4 * EPS * (n + 2) * scale, "vol-sum-length", "sum of volumes %r != length %r" % (float(np.sum(vol)), L))
        require(m.length == L, "length-attr", "mesh.length = %r, requested %r" % (m.length, L))
    # averages
    c = case["const"]
    avc = m.average(np.full(n, c))
    require(abs(avc - c) <= 8 * EPS * abs(c), "average-const", "average of the constant %r is %r" % (c, float(avc)))
    d = np.array(case["data"], dtype=float)[np.arange(n) % len(case["data"])]
    ref = float(np.sum(dxf * d) / np.sum(dxf))
    av = m.average(d)
    require(abs(av - ref) <= 1e-13 * np.max(np.abs(d)) + 1e-300, "average-weighted", "average %r differs from the volume-weighted mean %r" % (float(av), ref))
    l1 = m.L1average(d)
    l2 = m.L2average(d)
    require(abs(l1 - float(np.sum(dxf * np.abs(d)) / np.sum(dxf))) <= 1e-13 * np.max(np.abs(d)) + 1e-300, "L1average", "L1 average is not volume weighted")
    require(abs(l2 - float(np.sqrt(np.sum(dxf * d * d) / np.sum(dxf)))) <= 1e-13 * np.max(np.abs(d)) + 1e-300, "L2average", "L2 average is not volume weighted")
    # ... and after the mesh has served a discretisation and a short computation (n >= 2: periodic second-order convection, two rk2 steps with a monitor)
    if 2 <= n <= 200:
        model = cases.build_model(dict(name="convection", a=-1.3))
        disc = cases.build_disc(model, m, dict(name="muscl", limiter="vanleer"), None, {"type": "per"}, {"type": "per"})
        f0 = cases.build_field(model, m, [np.sin(1.0 + 2.3 * np.arange(n))])
        disc.rhs(f0)
        solver = cases.build_integrator("rk2", m, disc)
        solver.solve(f0, 0.4, stop={"maxit": 2}, monitors={"data_average": {"data": "q", "frequency": 1}})
        f0.average("q")
    # the queries are read-only: after averages (and a first round of every accessor) the mesh still answers the same, bit for bit
    for nm, before, now in (("xf", xf, m.xf), ("centers()", xc, m.centers()), ("xc", xc, m.xc), ("vol()", vol, m.vol()), ("dx()", vol, m.dx())):
        require(np.array_equal(np.asarray(now, dtype=float), before), "queries-read-only", "mesh.%s changed after average()/L1average()/L2average() were called (max change %r)"
                % (nm, float(np.max(np.abs(np.asarray(now, dtype=float) - before)))))
    require(m.ncell == n and m.nbfaces() == n + 1, "queries-read-only", "ncell / nbfaces() changed after the averages were called")
    nontrivial = n >= 2 and kind != "uni"
    if kind == "uni":
        exp = x0 + L * np.arange(n + 1) / n
        require(np.max(np.abs(xf - exp)) <= 4 * EPS * scale, "uniform-faces", "uniform mesh faces deviate by %r" % float(np.max(np.abs(xf - exp))))
    if kind == "refined":
        a, b, r = md["a"], md["b"], md["ratio"]
        # two uniform zones
        splits = [k for k in range(0, n + 1) if _uniform(dxf[:k]) and _uniform(dxf[k:])]
        require(len(splits) > 0, "two-uniform-zones", "cell sizes %r are not two uniform zones" % dxf[:12].tolist())
        fa, fb = Fraction(str(a)), Fraction(str(b))
        mcount = n * fa / (fa + fb)
        if mcount.denominator == 1:
            k = int(mcount)
            labels.append("whole-zone-count")
            if isinstance(a, float) and not float(a).is_integer():
                labels.append("whole-zone-count-decimal-proportion")
            if 0 < k < n:
                require(k in splits or abs(r - 1.0) < 1e-12, "zone-count", "requested proportion %r:%r of %d cells is the whole number %d but the zones split at %r"
                        % (a, b, n, k, splits))
                dx1, dx2 = float(np.mean(dxf[:k])), float(np.mean(dxf[k:]))
                require(abs(dx2 / dx1 - r) <= 1e-9 * r, "zone-ratio", "cell-size ratio %r, requested %r (ncell=%d, proportions %r:%r, zone 1 has %r cells)"
                        % (dx2 / dx1, r, n, a, b, splits))
                nontrivial = nontrivial and abs(r - 1.0) > 1e-9
        else:
            labels.append("fractional-zone-count")
    return dict(nontrivial=nontrivial, labels=labels)


def _uniform(d):
    if len(d) <= 1:
        return True
    return float(np.max(d) - np.min(d)) <= 1e-9 * float(np.max(d))


def check2d(case):
    nx, ny, lx, ly = case["nx"], case["ny"], case["lx"], case["ly"]
    m = cases.build_mesh2d(case)
    # a mesh must not depend on meshes constructed after it (convergence studies build all their meshes first): two decoys, then judge the first
    cases.build_mesh2d(dict(nx=ny + 1, ny=nx + 2, lx=2.0 * ly, ly=0.5 * lx))
    cases.build_mesh2d(dict(nx=nx + 3, ny=max(1, ny - 1), lx=lx, ly=ly))
    dx, dy = lx / nx, ly / ny
    require(m.ncell == nx * ny, "ncell", "ncell = %r" % m.ncell)
    nxf, nyf = (nx + 1) * ny, nx * (ny + 1)
    require(m.nbfaces() == nxf + nyf, "nbfaces", "nbfaces() = %r, expected %d" % (m.nbfaces(), nxf + nyf))
    vol = np.array(m.vol(), dtype=float, copy=True)
    require(vol.shape == (nx * ny,), "nvol", "vol() shape %r" % (vol.shape,))
    require(np.max(np.abs(vol - dx * dy)) <= 4 * EPS * dx * dy, "vol", "cell volume %r, expected %r" % (float(vol[0]), dx * dy))
    require(abs(float(m.dx()) - dx) <= 2 * EPS * dx and abs(float(m.dy()) - dy) <= 2 * EPS * dy, "dxdy", "dx()/dy() = %r/%r" % (m.dx(), m.dy()))
    c = case["const"]
    require(abs(m.average(np.full(nx * ny, c)) - c) <= 8 * EPS * abs(c), "average-const", "average of a constant is not the constant")
    xx, yy = [np.array(a, dtype=float, copy=True) for a in m.centers()]
    ii = np.arange(nx * ny) % nx
    jj = np.arange(nx * ny) // nx
    require(np.asarray(xx).shape == (nx * ny,) and np.asarray(yy).shape == (nx * ny,), "centers-shape", "centers() shapes %r %r" % (np.shape(xx), np.shape(yy)))
    require(np.max(np.abs(xx - (ii + 0.5) * dx)) <= 1e-13 * lx and np.max(np.abs(yy - (jj + 0.5) * dy)) <= 1e-13 * ly, "centers",
            "cell centres are not row-wise (i fast) midpoints")
    # geometric enumeration of the faces in the documented order: i-faces row by row, then j-faces row by row
    geo = {"left": [], "right": [], "bottom": [], "top": []}
    idx = 0
    for j in range(ny):
        for i in range(nx + 1):
            if i == 0:
                geo["left"].append(idx)
            if i == nx:
                geo["right"].append(idx)
            idx += 1
    for j in range(ny + 1):
        for i in range(nx):
            if j == 0:
                geo["bottom"].append(idx)
            if j == ny:
                geo["top"].append(idx)
            idx += 1
    tags = list(m.list_of_bctags())
    require(sorted(tags) == ["bottom", "left", "right", "top"], "tags", "boundary tags %r" % tags)
    allidx = []
    outward = {"left": (-1.0, 0.0), "right": (1.0, 0.0), "bottom": (0.0, -1.0), "top": (0.0, 1.0)}
    orient = {"left": "inward", "bottom": "inward", "right": "outward", "top": "outward"}
    for t in tags:
        io = np.asarray(m.index_of_bc(t))
        require(io.ndim == 1 and np.issubdtype(io.dtype, np.integer), "index-type", "index_of_bc(%s) is not an integer vector" % t)
        require(np.all((io >= 0) & (io < nxf + nyf)), "index-range", "index_of_bc(%s) outside 0..%d" % (t, nxf + nyf))
        require(io.tolist() == geo[t], "bc-faces", "index_of_bc(%s) = %r, geometric boundary faces are %r" % (t, io.tolist()[:8], geo[t][:8]))
        allidx.extend(io.tolist())
        require(m.bcface_orientation(t) == orient[t], "orientation", "orientation of %s is %r" % (t, m.bcface_orientation(t)))
        nrm = np.asarray(m.normal_of_bc(t), dtype=float)
        require(nrm.shape == (2, len(geo[t])), "normal-shape", "normal_of_bc(%s) has shape %r" % (t, nrm.shape))
        require(np.all(nrm[0] == outward[t][0]) and np.all(nrm[1] == outward[t][1]), "normal", "normal_of_bc(%s) is %r, outward unit normal is %r" % (t, nrm[:, 0].tolist(), outward[t]))
    require(len(set(allidx)) == len(allidx), "disjoint", "boundary face sets overlap")
    require(len(allidx) == 2 * nx + 2 * ny, "cover", "%d boundary faces indexed, %d expected" % (len(allidx), 2 * nx + 2 * ny))
    # read-only queries: second reading after everything has been used once, incl. by a discretisation and a short computation
    if nx * ny <= 100:
        md2 = dict(name="euler2d", gamma=1.4)
        model = cases.build_model(md2)
        per = {"type": "per"}
        disc = cases.build_disc2d(model, m, dict(name="extrapol2dk", k=1.0 / 3.0), "hlle", dict(left=per, right=per, bottom=per, top=per))
        w = 1.0 + 0.1 * np.sin(1.0 + 2.3 * np.arange(nx * ny))
        f0 = cases.build_field(model, m, cases.cons_from_prim(md2, [w, np.vstack([0.1 * w, -0.2 * w]), w]))
        disc.rhs(f0)
        cases.build_integrator("rk2", m, disc).solve(f0, 0.3, stop={"maxit": 1})
    x2, y2 = m.centers()
    require(np.array_equal(np.asarray(m.vol(), dtype=float), vol) and np.array_equal(np.asarray(x2, dtype=float), xx) and np.array_equal(np.asarray(y2, dtype=float), yy),
            "queries-read-only", "vol() / centers() changed after the mesh was queried")
    for t in tags:
        require(np.asarray(m.index_of_bc(t)).tolist() == geo[t], "queries-read-only", "index_of_bc(%s) changed at the second call" % t)
    labels = ["nx=ny" if nx == ny else "nx!=ny", "min-dim:%d" % min(nx, ny, 3), "cells:" + ("<1e3" if nx * ny < 1000 else "1e3-3e4" if nx * ny < 30000 else ">=3e4")]
    return dict(nontrivial=(nx != ny or lx != ly), labels=labels)


SUBCHECKS = [
    SubCheck("mesh1d", check1d, strategy=strat1d, examples={"quick": 1500, "thorough": 8000}, shards={"quick": 4, "thorough": 16}),
    SubCheck("mesh2d", check2d, strategy=strat2d, examples={"quick": 600, "thorough": 3000}, shards={"quick": 2, "thorough": 8}),
]

META = dict(
    level_text="Generated search over constructor arguments (all three 1-D constructors, 2-D grids) with every clause of the property "
               "evaluated against geometry recomputed from the arguments (exact rational zone counts, geometric face enumeration). "
               "Exploration: sizes up to 1000 cells / 40x40 grids; argument patterns outside the generator pools are not covered.",
    level_note="trusted: numpy; decimal reading of zone proportions; tolerances 4 ulp (end points, midpoints, volumes) and 1e-9 (zone ratio)",
    technique="property-based testing (Hypothesis given) against a geometric reference model",
)
