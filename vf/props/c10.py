"""C10 - first-order Riemann-flux schemes keep density, pressure and depth positive.

Invariant over a history: after every step rho>0, p>0 (h>0) and all data finite.
"""
import math

import numpy as np
from hypothesis import strategies as st

from vf import cases, gen, sim
from vf.runner import SubCheck, require, target

RULE = ("cases = {euler1d gamma in {1.1,1.2,1.4,5/3,2} x {hlle,hllc}} U {shallowwater g x {rusanov,hll}} x extrapol1 x uniform mesh 2..30 (thorough 200) cells x {per, sym} x "
        "{explicit, forwardeuler, rk2_heun, rk3ssp} x CFL in (0,1/2] x 12..40 steps x data (random values, two-state and three-level Riemann-like steps, sawtooth) with "
        "rho,p,h ratios up to 1e3 and Mach/Froude in [-3,3]. non-trivial = a jump ratio > 2 or |M| > 1 somewhere; distinct = distinct canonical JSON")
ASSUMPTIONS = ["imposed-state boundaries are excluded, as the property states", "positivity is judged strictly (> 0) on density/depth and on the pressure recomputed by the oracle from the conservative data"]

SSP = ["explicit", "forwardeuler", "rk2_heun", "rk3ssp"]
LN1000 = math.log(1000.0)


def _ln():
    v = st.one_of(gen.f(-LN1000 / 2, LN1000 / 2), st.sampled_from([-LN1000 / 2, LN1000 / 2, 0.0]))
    return st.one_of(gen.prof_vals(v), gen.prof_steps(v), gen.prof_steps(v), gen.prof_saw(st.just(0.0), gen.f(-LN1000, LN1000)), gen.prof_const(v))


def _mach():
    v = st.one_of(gen.f(-3, 3), st.sampled_from([0.0, 1.0, -1.0, 3.0, -3.0, 2.0, -2.0]))
    return st.one_of(gen.prof_vals(v), gen.prof_steps(v), gen.prof_steps(v), gen.prof_const(v))


def strat(tier):
    nmax = 30 if tier == "quick" else 200
    smax = 24 if tier == "quick" else 40
    cfl = st.one_of(gen.f(0.02, 0.5), st.sampled_from([0.5, 0.45, 0.25]))
    eul = st.builds(lambda g, fl, r, p, m: (dict(name="euler1d", gamma=g), fl, dict(lnrho=r, lnp=p, mach=m)),
                    st.sampled_from([1.1, 1.2, 1.4, 5.0 / 3.0, 2.0]), st.sampled_from(["hlle", "hllc"]), _ln(), _ln(), _mach())
    # dense stream against light gas at the same temperature (density and pressure jump together, by up to 1e4, same sound speed) in supersonic relative motion
    LN1E4 = math.log(1.0e4)
    vbig = st.one_of(gen.f(-LN1E4 / 2, LN1E4 / 2), st.sampled_from([-LN1E4 / 2, LN1E4 / 2, 0.0]))
    lnbig = st.one_of(gen.prof_vals(vbig), gen.prof_steps(vbig), gen.prof_steps(vbig))
    iso = st.builds(lambda g, fl, r, m: (dict(name="euler1d", gamma=g), fl, dict(lnrho=r, lnp=r, mach=m)),
                    st.sampled_from([1.1, 1.2, 1.4, 5.0 / 3.0, 2.0]), st.sampled_from(["hlle", "hllc"]), lnbig, _mach())
    sw = st.builds(lambda g, fl, h, m: (dict(name="shallowwater", g=g), fl, dict(lnh=h, froude=m)),
                   st.one_of(st.just(9.81), gen.logf(-1, 2)), st.sampled_from(["rusanov", "hll"]), _ln(), _mach())
    return st.builds(lambda mf, n, L, bc, integ, c, ns, un: dict(model=mf[0], flux=mf[1], state=mf[2], mesh=dict(kind="uni", n=n, length=L, x0=0.0), num=dict(name="extrapol1"),
                                                                 bcL={"type": bc}, bcR={"type": bc}, integ=integ, cfl=c, nsteps=ns, units=un),
                     st.one_of(eul, eul, iso, sw), st.integers(2, nmax), st.one_of(gen.logf(-1, 1), gen.logf(-1, 1), gen.logf(-9, 4)), st.sampled_from(["per", "sym"]), st.sampled_from(SSP), cfl, st.integers(12, smax),
                     sim.units_strategy())


def check(case):
    md = case["model"]
    P = sim.problem1d(case)
    solver = cases.build_integrator(case["integ"], P.mesh, P.disc)
    f = P.field.copy()
    prim0 = P.prim
    pos0 = [prim0[0]] + ([prim0[2]] if md["name"] == "euler1d" else [])
    worst = float("inf")
    for k in range(case["nsteps"]):
        sim.advance(solver, P.disc, f, case["cfl"])
        for d in f.data:
            require(np.all(np.isfinite(d)), "finite", "step %d: non-finite data (%s/%s, %s, %s, cfl=%g)" % (k + 1, md["name"], case["flux"], case["bcL"]["type"], case["integ"], case["cfl"]))
        prim = cases.prim_from_cons(md, f.data)
        mn = float(np.min(prim[0]))
        require(mn > 0, "density-positive" if md["name"] == "euler1d" else "depth-positive",
                "step %d: min %s = %r (%s/%s, %s, %s, cfl=%g)" % (k + 1, "rho" if md["name"] == "euler1d" else "h", mn, md["name"], case["flux"], case["bcL"]["type"], case["integ"], case["cfl"]))
        worst = min(worst, mn / float(np.min(pos0[0])))
        if md["name"] == "euler1d":
            mp = float(np.min(prim[2]))
            require(mp > 0, "pressure-positive", "step %d: min p = %r (%s, %s, %s, cfl=%g, gamma=%g)" % (k + 1, mp, case["flux"], case["bcL"]["type"], case["integ"], case["cfl"], md["gamma"]))
            worst = min(worst, mp / float(np.min(pos0[1])))
    target(-worst, "-min(positive quantity)/initial min")
    ratio = max(float(np.max(x) / np.min(x)) for x in pos0)
    vel = prim0[1]
    wave = np.sqrt(md.get("g", 9.81) * prim0[0]) if md["name"] == "shallowwater" else np.sqrt(md["gamma"] * prim0[2] / prim0[0])
    mmax = float(np.max(np.abs(vel) / wave))
    labels = ["%s/%s" % (md["name"], case["flux"]), "bc:" + case["bcL"]["type"], "integ:" + case["integ"],
              "ratio:" + ("<2" if ratio < 2 else "<100" if ratio < 100 else ">=100"), "mach:" + ("<1" if mmax < 1 else ">=1")]
    # the same history through solve()
    solver2 = cases.build_integrator(case["integ"], P.mesh, P.disc)
    hist = sim.preuse_solver(P, solver2, case, case["cfl"])          # the solver object may have a past (e.g. a much slower flow: see sim.preuse_solver)
    labels.append("solver-history:%d" % hist)
    res = solver2.solve(P.field, case["cfl"], stop={"maxit": case["nsteps"]})
    require(sim.admissible(md, res[-1].data), "solve-admissible", "solve(maxit=%d) ends outside the admissible set (%s/%s)" % (case["nsteps"], md["name"], case["flux"]))
    return dict(nontrivial=bool(ratio > 2 or mmax > 1), labels=labels)


REQUIRED_LABELS = ['positivity/ratio:>=100', 'positivity/mach:>=1', 'positivity/bc:per', 'positivity/bc:sym', 'positivity/euler1d/hlle', 'positivity/euler1d/hllc', 'positivity/shallowwater/rusanov', 'positivity/shallowwater/hll']

SUBCHECKS = [
    SubCheck("positivity", check, strategy=strat, examples={"quick": 800, "thorough": 2500}, shards={"quick": 8, "thorough": 16}),
]

META = dict(
    level_text="Generated histories of 12..40 steps for first-order HLLE/HLLC (Euler) and Rusanov/HLL (shallow water) with the SSP integrators at CFL<=1/2 on uniform meshes with "
               "periodic or wall boundaries, from data with ratios up to 1e3 and Mach/Froude up to 3; positivity and finiteness judged after every step. Exploration only.",
    level_note="trusted: numpy; oracle's own conservative->primitive conversion; sizes <= 200 cells, <= 40 steps",
    technique="property-based testing (Hypothesis given): invariant (positivity, finiteness) checked after every step of a generated history",
)
