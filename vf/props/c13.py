"""C13 - the 1-D solver commutes with reflection and with change of units.

The generated case is first expanded into a *concrete problem* (explicit faces, primitive arrays, boundary dictionaries, linear
source coefficients, section law); the metamorphic images (mirror, power-of-two rescaling) are built from the concrete problem by
the oracle, both are run with the same integrator / CFL / number of steps, and the results compared.
"""
import math

import numpy as np
from hypothesis import strategies as st

from vf import cases, gen, sim
from vf.props.c16 import _tot
from vf.runner import Skip, SubCheck, require, target

RULE = ("cases = 1-D model (convection +/-a, burgers, shallowwater, euler1d, nozzle with a section law; optional linear sources) x mesh (uniform/refined/morphed/arbitrary faces, 2..16 "
        "cells) x every registered flux x every reconstruction/limiter x boundary type on each side (per; dirichlet; all nine Euler conditions; shallow-water sym/inf) x every "
        "integrator x 1..6 steps; mirror image and unit rescaling by 2^k (|k|<=30 for density, velocity, length). non-trivial = data whose mirror image differs from itself / at "
        "least one scale factor != 1; distinct = distinct canonical JSON")
ASSUMPTIONS = ["mirror: tolerance 1e-11 x scale x steps (x measured amplification) for explicit integrators and for implicit ones on the linear model; 1e-4 for implicit integrators on nonlinear "
               "models (the one-sided finite-difference Jacobian perturbs momentum in the opposite direction in the mirrored problem)",
               "units: bit-identical data and time for explicit integrators with extrapol*/minmod/superbee and for implicit integrators when the velocity scale is 1; 1e-7 relative for implicit "
               "integrators with velocity rescaling (LAPACK pivoting) and for van Albada / van Leer (documented 1e-20/1e-40 regularisation, |k| <= 3 there)",
               "Burgers histories that come within 1e-9 of a sonic-expansion tie (discontinuous flux) are skipped",
               "units: where dimensional numpy *scalars* are squared with ** (Burgers flux, insub_cbc, outsub_qtot) libm pow() is not exactly scale-covariant: 1e-12 x steps instead of bitwise"]

EULER_BC = ["sym", "insub", "insub_cbc", "insup", "outsub", "outsub_prim", "outsub_qtot", "outsub_rh", "outsub_nrcbc", "outsup", "dirichlet"]


# ---------------------------------------------------------------- concrete problems
def concretize(case):
    md = case["model"]
    name = md["name"]
    mesh = cases.build_mesh(case["mesh"])
    xf = np.asarray(mesh.xf, dtype=float).copy()
    smd = md if name != "nozzle" else dict(name="euler1d", gamma=md.get("gamma", 1.4))
    prim = cases.prim_state(smd, case["state"], cases.norm_coord(xf))
    C = dict(name=name, xf=xf, prim=[np.array(p, dtype=float) for p in prim], a=md.get("a"), g=md.get("g", 9.81), gamma=md.get("gamma", 1.4),
             section=md.get("section"), secx=(1.0, 1.0), source=case.get("source"), flux=case["flux"], num=case["num"])
    if name == "burgers" and np.all(C["prim"][0] == 0):
        raise Skip("burgers data identically zero (dt = inf)")
    C["bcL"], C["bcR"] = _concrete_bc(C, case["bcL"], case["bcR"], case.get("dprim", [0.1, -0.2, 0.3]))
    return C


def _concrete_bc(C, tL, tR, dp):
    if tL == "per" or tR == "per":
        return {"type": "per"}, {"type": "per"}
    name = C["name"]
    prim = C["prim"]

    def one(t, side):
        if t == "dirichlet":
            i = 0 if side == "L" else -1
            if name in ("convection", "burgers"):
                return {"type": t, "prim": [float(prim[0][i]) + dp[0]]}
            if name == "shallowwater":
                return {"type": t, "prim": [float(prim[0][i]) * math.exp(dp[0]), float(prim[1][i]) + dp[1]]}
            return {"type": t, "prim": [float(prim[0][i]) * math.exp(dp[0]), float(prim[1][i]) + dp[1], float(prim[2][i]) * math.exp(dp[2])]}
        if name == "shallowwater":
            return {"type": t}
        g = C["gamma"]
        pt, rt = _tot(g, prim[0], prim[1] ** 2, prim[2])
        d = {"type": t}
        if t in ("insub", "insub_cbc", "insup"):
            d["ptot"] = 1.25 * float(np.max(pt))
            d["rttot"] = 1.25 * float(np.max(rt))
        if t == "insup":
            d["p"] = 0.5 * float(np.max(prim[2]))
        if t in ("outsub", "outsub_prim", "outsub_qtot", "outsub_rh", "outsub_nrcbc"):
            d["p"] = 0.9 * float(np.exp(np.mean(np.log(prim[2]))))
        return d
    return one(tL, "L"), one(tR, "R")


def build(C):
    name = C["name"]
    md = dict(name=name)
    if name == "convection":
        md["a"] = C["a"]
    if name == "shallowwater":
        md["g"] = C["g"]
    if name in ("euler1d", "nozzle"):
        md["gamma"] = C["gamma"]
    if name == "nozzle":
        base = cases.section_fn(C["section"])
        sx, sA = C["secx"]                           # A'(x) = sA * A(x / sx): mirrored (sx=-1) or rescaled section
        sec = lambda x, base=base, sx=sx, sA=sA: sA * base(np.asarray(x, dtype=float) / sx)
        import flowdyn.modelphy.euler as euler
        cases._decoy_models("nozzle", "before")
        model = euler.nozzle(sec, gamma=C["gamma"], source=cases.build_sources(C["source"]))
        cases._decoy_models("nozzle", "after")
    else:
        if C["source"] is not None and name in ("euler1d", "shallowwater"):
            md["source"] = C["source"]
        model = cases.build_model(md)
    mesh = cases.mesh_from_faces(C["xf"])
    disc = cases.build_disc(model, mesh, C["num"], C["flux"], _bcopy(C["bcL"]), _bcopy(C["bcR"]))
    smd = md if name != "nozzle" else dict(name="euler1d", gamma=C["gamma"])
    cons = cases.cons_from_prim(smd, C["prim"])
    f = cases.build_field(model, mesh, cons)
    return smd, model, mesh, disc, f


def _bcopy(bc):
    return {k: (list(v) if isinstance(v, list) else v) for k, v in bc.items()}


PARITY = {"convection": [1], "burgers": [-1], "shallowwater": [1, -1], "euler1d": [1, -1, 1], "nozzle": [1, -1, 1]}


def mirror(C):
    name = C["name"]
    par = PARITY[name]
    M = dict(C)
    M["xf"] = -C["xf"][::-1]
    M["prim"] = [par[k] * C["prim"][k][::-1] for k in range(len(par))]
    if name == "convection":
        M["a"] = -C["a"]
    if name == "nozzle":
        M["secx"] = (-C["secx"][0], C["secx"][1])

    def mbc(bc):
        out = dict(bc)
        if bc["type"] == "dirichlet":
            out["prim"] = [par[k] * bc["prim"][k] for k in range(len(par))]
        return out
    M["bcL"], M["bcR"] = mbc(C["bcR"]), mbc(C["bcL"])
    if C["source"] is not None:
        src = []
        for k, d in enumerate(C["source"]):
            if d is None:
                src.append(None)
                continue
            pk = par[k]
            cq = list(d.get("cq", []))
            src.append(dict(c0=pk * d.get("c0", 0.0), cx=-pk * d.get("cx", 0.0), cq=[pk * par[j] * cq[j] for j in range(min(len(cq), len(par)))]))
        M["source"] = src
    return M


def unmirror_data(name, data):
    par = PARITY[name]
    return [par[k] * np.asarray(data[k], dtype=float)[::-1] for k in range(len(par))]


def rescale(C, ka, kb, kl):
    """density (amplitude) x 2^ka, velocity x 2^kb, length x 2^kl.  returns (scaled problem, factors of the conservative variables, time factor)"""
    name = C["name"]
    a, b, l = 2.0 ** ka, 2.0 ** kb, 2.0 ** kl
    S = dict(C)
    S["xf"] = C["xf"] * l
    if name == "convection":
        S["prim"] = [C["prim"][0] * a]
        S["a"] = C["a"] * b
        sig = [a]
        psig = [a]
    elif name == "burgers":
        S["prim"] = [C["prim"][0] * b]
        sig = [b]
        psig = [b]
    elif name == "shallowwater":
        S["prim"] = [C["prim"][0] * a, C["prim"][1] * b]
        S["g"] = C["g"] * b * b / a
        sig = [a, a * b]
        psig = [a, b]
    else:
        S["prim"] = [C["prim"][0] * a, C["prim"][1] * b, C["prim"][2] * a * b * b]
        sig = [a, a * b, a * b * b]
        psig = [a, b, a * b * b]
        if name == "nozzle":
            S["secx"] = (C["secx"][0] * l, C["secx"][1] * 4.0)

    def sbc(bc):
        out = dict(bc)
        if bc["type"] == "dirichlet":
            out["prim"] = [psig[k] * bc["prim"][k] for k in range(len(psig))]
        for key, fac in (("ptot", a * b * b), ("p", a * b * b), ("rttot", b * b)):
            if key in bc:
                out[key] = bc[key] * fac
        return out
    S["bcL"], S["bcR"] = sbc(C["bcL"]), sbc(C["bcR"])
    if C["source"] is not None:
        src = []
        for k, d in enumerate(C["source"]):
            if d is None:
                src.append(None)
                continue
            f = sig[k] * b / l
            cq = list(d.get("cq", []))
            src.append(dict(c0=d.get("c0", 0.0) * f, cx=d.get("cx", 0.0) * f / l, cq=[cq[j] * f / sig[j] for j in range(min(len(cq), len(sig)))]))
        S["source"] = src
    return S, sig, l / b


# ---------------------------------------------------------------- running
def run(C, integ, cfl, nsteps, watch_ties=False):
    smd, model, mesh, disc, f = build(C)
    solver = cases.build_integrator(integ, mesh, disc)
    watch = sim.TieWatch(disc) if (watch_ties and C["name"] == "burgers") else None
    g = f.copy()
    tie_late = False
    for s_ in range(nsteps):
        try:
            sim.advance(solver, disc, g, cfl)
        except np.linalg.LinAlgError:
            # a boundary condition pushed outside its regime (e.g. insub_cbc with outflow) returns NaN states: the Jacobian is then
            # not finite and LAPACK reports a singular matrix.  Only that situation is treated as "left the admissible set".
            jac = getattr(solver, "jacobian", None)
            if jac is not None and not np.all(np.isfinite(jac)):
                return None, None, smd, f, tie_late
            raise
        if not sim.admissible(smd, g.data):
            return None, None, smd, f, tie_late
        if watch is not None and watch.hit:
            if s_ > 0 or not cases.num_is_first_order(C["num"]) or integ not in ("explicit", "forwardeuler"):
                tie_late = True
            watch.hit = False
    if watch is not None:
        watch.release()
    # the same history through solve(): must agree with the manual stepping bit for bit when no save time is requested
    solver2 = cases.build_integrator(integ, mesh, disc)
    res = solver2.solve(f, cfl, stop={"maxit": nsteps})[-1]
    return res, g, smd, f, tie_late


# ---------------------------------------------------------------- generators
def _bc_types(md):
    name = md["name"]
    if name in ("convection", "burgers"):
        return ["per", "dirichlet"]
    if name == "shallowwater":
        return ["per", "dirichlet", "sym", "inf"]
    return ["per"] + EULER_BC


def _src(md):
    neq = cases.model_neq(md)
    if md["name"] not in ("euler1d", "shallowwater", "nozzle"):
        return st.none()
    coef = st.one_of(st.just(0.0), st.builds(lambda s, k: s * 2.0 ** k, st.sampled_from([1.0, -1.0]), st.integers(-4, 0)), gen.sfloat(-2, -0.5))
    entry = st.one_of(st.none(), st.builds(lambda c0, cx, cq: dict(c0=c0, cx=cx, cq=cq), coef, coef, st.lists(coef, min_size=neq, max_size=neq)))
    return st.one_of(st.none(), st.none(), st.lists(entry, min_size=neq, max_size=neq))


def _models():
    return st.one_of(gen.model_convection(), gen.model_burgers(), gen.model_shallowwater(), gen.model_euler1d(), gen.model_euler1d(), gen.model_nozzle(varying=True))


def _signed(lo, hi):
    return st.builds(lambda s, m: s * m, st.sampled_from([1.0, -1.0]), gen.f(lo, hi))


def _cfg_implicit_smooth(md, nmax, types, implicit):
    name = md["name"]
    fmd = md if name != "nozzle" else dict(name="euler1d")
    mach = st.one_of(_signed(0.15, 0.85), _signed(0.15, 0.85), _signed(1.15, 2.0))
    wig = gen.f(0, 0.05 / 3.0)
    mprof = st.one_of(gen.prof_fourier(mach, wig, kmax=2), gen.prof_const(mach))
    ln = gen.prof_smooth(-0.5, 0.5, 0.05)
    if name == "burgers":
        state = st.builds(lambda m, w: dict(u=dict(k="fourier", mean=m, modes=w)), _signed(0.5, 2.0), st.lists(st.tuples(gen.f(0, 0.1), st.integers(1, 2), gen.f(0, 1)).map(list), min_size=1, max_size=3))
    elif name == "shallowwater":
        state = st.builds(lambda h, m: dict(lnh=h, froude=m), ln, mprof)
    else:
        state = st.builds(lambda r, p, m: dict(lnrho=r, lnp=p, mach=m), ln, ln, mprof)
    num = st.one_of(gen.num_first(), gen.num_first(), gen.num_unlimited())
    return st.builds(lambda me, nu, s, fl, tl, tr, ic, ns, src, dp: dict(
        model=md, mesh=me, num=nu, state=s, flux=fl, bcL=tl, bcR=tr, integ=ic[0], cfl=ic[1], nsteps=ns, source=src, dprim=dp),
        gen.mesh_any(2, nmax), num, state, st.sampled_from(cases.flux_names(fmd)), st.sampled_from(types), st.sampled_from(types), implicit, st.integers(1, 2), _src(md),
        st.lists(gen.f(-0.3, 0.3), min_size=3, max_size=3))


def _cfg(md, tier, units):
    nmax = 10 if tier == "quick" else 16
    fmd = md if md["name"] != "nozzle" else dict(name="euler1d")
    ex, im = cases.integrator_names()
    lin = md["name"] == "convection"
    explicit = st.builds(lambda i, c: (i, c), st.sampled_from(ex), gen.f(0.05, 0.6))
    implicit = st.builds(lambda i, c: (i, c), st.sampled_from(im), gen.logf(-1, 1.5) if lin else gen.f(0.05, 1.5))
    types = _bc_types(md)
    kk = st.integers(-30, 30)
    base = st.builds(lambda me, rough, num_r, num_s, s_r, s_s, fl, tl, tr, ic, ns, src, dp: dict(
        model=md, mesh=me, num=(num_r if rough else num_s), state=(s_r if rough else s_s), flux=fl, bcL=tl, bcR=tr, integ=ic[0], cfl=ic[1], nsteps=ns, source=src, dprim=dp),
        gen.mesh_any(2, nmax), st.booleans(), gen.num_robust(), gen.num_any(), gen.state_for(md, True, lnrange=0.7, machmax=1.5), gen.state_for(md, False, lnrange=0.5, machmax=1.2, smooth_amp=0.05),
        st.sampled_from(cases.flux_names(fmd)), st.sampled_from(types), st.sampled_from(types), (st.one_of(explicit, explicit, explicit, implicit) if lin else explicit), st.integers(1, 6), _src(md),
        st.lists(gen.f(-0.3, 0.3), min_size=3, max_size=3))
    if not lin:
        # implicit integrators use a one-sided finite-difference Jacobian: the relations hold (to the truncation error) only where the operator is
        # differentiable, so these cases are CONSTRUCTED away from u = 0 and from sonic points, without slope limiters, rather than drawn and skipped
        base = st.one_of(base, base, base, _cfg_implicit_smooth(md, nmax, types, implicit))
    if not units:
        return base
    return st.builds(lambda b, ka, kb, kl: dict(b, ka=ka, kb=kb, kl=kl), base, kk, st.one_of(kk, st.just(0)), kk)


def strat_mirror(tier):
    return _models().flatmap(lambda md: _cfg(md, tier, False))


def strat_units(tier):
    return _models().flatmap(lambda md: _cfg(md, tier, True))


# ---------------------------------------------------------------- predicates
def _scales(C, smd):
    qsc, a = sim.state_scales(smd if C["name"] != "convection" else dict(name="convection", a=C["a"]), C["prim"])
    if C["name"] in ("convection", "burgers"):
        for bc in (C["bcL"], C["bcR"]):
            if bc["type"] == "dirichlet":
                qsc[0] = max(qsc[0], abs(bc["prim"][0]) if C["name"] == "convection" else abs(bc["prim"][0]))
    if any(q <= 1e-300 for q in qsc):
        raise Skip("identically zero problem")
    return qsc


def _labels(case, C):
    return ["model:" + C["name"], "integ:" + case["integ"], "num:" + case["num"].get("limiter", case["num"]["name"]), "bc:%s/%s" % (C["bcL"]["type"], C["bcR"]["type"]),
            "mesh:" + case["mesh"]["kind"], "flux:%s" % case["flux"], "src" if case.get("source") else "nosrc"]


def differentiable_state(C):
    """implicit integrators use a ONE-SIDED finite-difference Jacobian; the mirrored problem perturbs momentum in the opposite direction, so
    the two Jacobians agree (to the truncation error) only where the space operator is differentiable: away from u = 0 (|u| in Rusanov / HLL
    bounds), from sonic points (upwind switches) and without slope limiters (kinks at equal / vanishing slopes)."""
    name = C["name"]
    if name == "convection":
        return True
    if C["num"]["name"] == "muscl":
        return False
    if name == "burgers":
        u = C["prim"][0]
        return bool(np.all(u > 0.05 * np.max(np.abs(u))) or np.all(u < -0.05 * np.max(np.abs(u))))
    if name == "shallowwater":
        m = C["prim"][1] / np.sqrt(C["g"] * C["prim"][0])
    else:
        m = C["prim"][1] / np.sqrt(C["gamma"] * C["prim"][2] / C["prim"][0])
    return bool(np.all(np.abs(m) >= 0.05) and np.all(np.abs(np.abs(m) - 1.0) >= 0.05))


def check_mirror(case):
    C = concretize(case)
    M = mirror(C)
    name = C["name"]
    integ, cfl, ns = case["integ"], case["cfl"], case["nsteps"]
    if cases.is_implicit(integ) and not differentiable_state(C):
        raise Skip("implicit integrator at a state where the operator is not differentiable (one-sided Jacobian)")
    if cases.is_implicit(integ) and name != "convection":
        ns = min(ns, 2)
    resC, gC, smd, f0, tieC = run(C, integ, cfl, ns, True)
    resM, gM, _s, fM0, tieM = run(M, integ, cfl, ns, True)
    if resC is None or resM is None:
        if resC is None and resM is None:
            raise Skip("left_admissible_set")
        # one run leaves the admissible set and its mirror image does not: a real asymmetry unless round-off decided it
        raise Skip("left_admissible_set (one of the two runs)")
    if tieC or tieM:
        raise Skip("burgers sonic-expansion tie (discontinuous flux)")
    qsc = _scales(C, smd)
    implicit = cases.is_implicit(integ)
    mk = lambda: cases.build_integrator(integ, *build(C)[2:4])
    amp = sim.amplification(mk, f0, qsc, cfl, ns)
    if not amp <= 1e3:
        raise Skip("unstable configuration (round-off amplified > 1e3)")
    if implicit and name != "convection":
        tol = 1e-4 * max(1.0, amp)
    elif implicit:
        tol = 1e-7 * max(1.0, amp)
    else:
        tol = 1e-11 * ns * max(1.0, amp)
    worst = 0.0
    for which, rc, rm in (("stepping", gC, gM), ("solve", resC, resM)):
        back = unmirror_data(name, rm.data)
        for k in range(len(back)):
            e = float(np.max(np.abs(back[k] - rc.data[k]))) / qsc[k]
            require(e <= tol, "mirror", "variable %d (%s): the run of the mirror image differs from the mirror image of the run by %.3g (relative, tol %.3g; %s, cfl=%g, %d steps, %s/%s, %s, bc %s/%s, %s mesh)"
                    % (k, which, e, tol, integ, cfl, ns, name, case["flux"], case["num"].get("limiter", case["num"]["name"]), C["bcL"]["type"], C["bcR"]["type"], case["mesh"]["kind"]))
            worst = max(worst, e / tol)
        require(abs(rc.time - rm.time) <= 10 * tol * abs(rc.time), "mirror-time", "mirrored run ends at time %r, original at %r" % (rm.time, rc.time))
    target(worst, "mirror-error/tol")
    # non-trivial: the problem is not its own mirror image
    selfsym = all(np.array_equal(a, b) for a, b in zip(M["prim"], C["prim"])) and C["bcL"]["type"] == C["bcR"]["type"] and name != "convection"
    return dict(nontrivial=not selfsym, labels=_labels(case, C) + ["implicit" if implicit else "explicit"])


BITWISE_NUM = ("extrapol1", "extrapol2", "extrapol3", "extrapolk", "centered", "fromm", "quick")


def check_units(case):
    C = concretize(case)
    name = C["name"]
    integ, cfl, ns = case["integ"], case["cfl"], case["nsteps"]
    regularised = case["num"]["name"] == "muscl" and case["num"]["limiter"] in ("vanalbada", "vanleer")
    ka, kb, kl = case["ka"], case["kb"], case["kl"]
    if regularised:
        ka, kb, kl = max(-3, min(3, ka)), max(-3, min(3, kb)), max(-3, min(3, kl))
    if cases.is_implicit(integ) and regularised:
        raise Skip("implicit integrator with a regularised limiter: the finite-difference Jacobian of the 1e-20-regularised slope is not unit-covariant")
    if cases.is_implicit(integ):
        kb = max(-4, min(4, kb))      # rows of the implicit matrix are scaled by 2^(2 kb): partial pivoting loses ~2^(4|kb|) ulp
    S, sig, tfac = rescale(C, ka, kb, kl)
    q0 = cases.cons_from_prim(dict(name=name if name != "nozzle" else "euler1d", gamma=C["gamma"], g=C["g"], a=C["a"]), C["prim"])
    zero_var = any(np.all(q == 0) for q in q0)
    if cases.is_implicit(integ) and kb != 0:
        if zero_var:
            # the finite-difference Jacobian perturbs an identically zero variable by the largest step of the OTHER variables
            # (repair of D15); that fallback has the wrong physical dimension, so the result is unit-dependent at the level of the
            # Jacobian truncation error.  Recorded as a limitation in DESIGN.md; not judged here.
            raise Skip("implicit Jacobian fallback step for an identically zero variable is not unit-aware")
    if cases.is_implicit(integ) and ka != 0 and all(np.all(q == 0) for q in q0):
        # same limitation for a field that is identically zero in EVERY variable (scalar model driven by its boundary values only): the fallback step is the
        # absolute number 1e-6, so the noise of the difference quotient depends on the unit of the data
        raise Skip("implicit Jacobian fallback step for an identically zero variable is not unit-aware")
    resC, gC, smd, f0, tieC = run(C, integ, cfl, ns, True)
    resS, gS, _s, _f, tieS = run(S, integ, cfl, ns, True)
    if resC is None or resS is None:
        require((resC is None) == (resS is None) or regularised or cases.is_implicit(integ), "units-admissibility",
                "one of the two runs leaves the admissible set and the rescaled one does not (%s, 2^%d 2^%d 2^%d)" % (integ, ka, kb, kl))
        raise Skip("left_admissible_set")
    implicit = cases.is_implicit(integ)
    exact = (not regularised) and (not implicit or (kb == 0 and not zero_var))
    # scalar x**2 goes through libm pow(), which is not correctly rounded: pow(2x,2) is not always 4*pow(x,2).  The Burgers flux and the
    # boundary conditions insub_cbc / outsub_qtot square dimensional numpy scalars, so they are exactly scale-covariant only up to an ulp.
    libm_pow = name == "burgers" or C["bcL"]["type"] in ("insub_cbc", "outsub_qtot") or C["bcR"]["type"] in ("insub_cbc", "outsub_qtot")
    near = exact and libm_pow
    if near:
        exact = False
    if not exact and (tieC or tieS):
        raise Skip("burgers sonic-expansion tie (discontinuous flux)")
    qsc = _scales(C, smd)
    worst = 0.0
    amp = 1.0
    # regularised limiters: the limited gradient deviates from the homogeneous value by at most ~1e-10 (absolute), i.e. dx*1e-10 on a face value
    dxs = max(float(np.max(np.diff(C["xf"]))) / min(qsc[:1]), float(np.max(np.diff(S["xf"]))) / (sig[0] * min(qsc[:1])))
    regtol = 2e-9 * ns * dxs if regularised else 0.0
    if not exact:
        mk = lambda: cases.build_integrator(integ, *build(C)[2:4])
        amp = sim.amplification(mk, f0, qsc, cfl, ns)
        if not amp <= 1e3:
            raise Skip("unstable configuration (round-off amplified > 1e3)")
    for which, rc, rs in (("stepping", gC, gS), ("solve", resC, resS)):
        for k in range(len(sig)):
            expect = sig[k] * rc.data[k]
            if exact:
                ok = np.array_equal(rs.data[k], expect)
                e = float(np.max(np.abs(rs.data[k] - expect))) / (sig[k] * qsc[k])
                require(ok, "units-bitwise", "variable %d (%s): rescaling by 2^%d (density) 2^%d (velocity) 2^%d (length) is not bit-identical: relative difference %.3g (%s, cfl=%g, %d steps, %s/%s, %s, bc %s/%s, %s mesh)"
                        % (k, which, ka, kb, kl, e, integ, cfl, ns, name, case["flux"], case["num"].get("limiter", case["num"]["name"]), C["bcL"]["type"], C["bcR"]["type"], case["mesh"]["kind"]))
            else:
                e = float(np.max(np.abs(rs.data[k] - expect))) / (sig[k] * qsc[k])
                tol = (1e-12 * ns if near else 1e-7 + regtol) * max(1.0, amp)
                require(e <= tol, "units-close", "variable %d (%s): rescaled run differs from the rescaled result by %.3g (relative, tol %.3g; %s, cfl=%g, %d steps, %s/%s, %s)"
                        % (k, which, e, tol, integ, cfl, ns, name, case["flux"], case["num"].get("limiter", case["num"]["name"])))
                worst = max(worst, e / tol)
        if exact:
            require(rs.time == tfac * rc.time, "units-time-bitwise", "time of the rescaled run %r is not %r x %r" % (rs.time, tfac, rc.time))
        else:
            require(abs(rs.time - tfac * rc.time) <= (1e-11 if near else 1e-6) * abs(tfac * rc.time), "units-time", "time of the rescaled run %r, expected %r" % (rs.time, tfac * rc.time))
    target(worst, "units-error/tol")
    # stepping and solve() agree bit for bit (same arithmetic)
    for k in range(len(sig)):
        require(np.array_equal(resC.data[k], gC.data[k]), "solve-equals-stepping", "solve(maxit=%d) differs from %d manual steps with the same dt rule (%s)" % (ns, ns, integ))
    nt = (ka, kb, kl) != (0, 0, 0)
    return dict(nontrivial=nt, labels=_labels(case, C) + ["exact" if exact else ("near-exact" if near else "toleranced"), "kb=0" if kb == 0 else "kb!=0"])


SUBCHECKS = [
    SubCheck("mirror", check_mirror, strategy=strat_mirror, examples={"quick": 400, "thorough": 2000}, shards={"quick": 8, "thorough": 16}),
    SubCheck("units", check_units, strategy=strat_units, examples={"quick": 450, "thorough": 2000}, shards={"quick": 8, "thorough": 16}),
]

META = dict(
    level_text="Generated search over complete 1-D problems (all models, fluxes, reconstructions, boundary types on either side incl. all nine Euler conditions, sources, section laws, "
               "non-uniform meshes, every integrator, 1..6 steps): the run of the mirror image must be the mirror image of the run, and the run of the power-of-two rescaled problem "
               "the rescaled run - bit for bit where the arithmetic is exactly reproducible. Exploration only.",
    level_note="trusted: numpy; the mirror / rescaling maps written in vf/props/c13.py; tolerances as listed in the assumptions",
    technique="property-based testing (Hypothesis given): metamorphic relations (reflection, change of units) on complete solver runs",
)
