"""C03 - uniform and compatible steady states are fixed points.

Oracle: the residual of a uniform state is zero; boundary parameters (ptot, rttot, p) are computed by the oracle from the state
itself (vf/props/c16._tot) and never by the code.  Operator level (residual) and solve level (every integrator, dtlocal on/off).
"""
import math

import numpy as np
from hypothesis import strategies as st

from vf import cases, gen, sim
from vf.props.c16 import _tot
from vf.runner import SubCheck, require, target

RULE = ("cases = uniform state (ln rho, ln p over 6 decades, Mach in [-3,3], any angle in 2-D) x model (convection, burgers, shallowwater, euler1d, nozzle at rest with any section law, "
        "euler2d) x mesh (any 1-D family / 2-D grid) x every reconstruction x every registered flux x compatible boundary sets (per; dirichlet holding the state; Euler "
        "{insub,insub_cbc} <-> {outsub,outsub_prim,outsub_qtot,outsub_rh,outsub_nrcbc} on either side; insup <-> outsup; walls for states at rest; 2-D: in/out pair along x or y with "
        "per/sym on the other pair, angled insup on the two upstream sides) ; solve: + every integrator x CFL x 1..10 steps x dtlocal on/off. Every case is non-trivial (a "
        "distinct configuration); distinct = distinct canonical JSON")
ASSUMPTIONS = ["tolerance on the residual: 1e-12 (1e-11/(gamma-1) with inlet/outlet conditions) x natural flux scale / smallest cell size",
               "solve: steps x 1e-11 relative to the natural state scale for explicit integrators, 1e-8 for implicit ones",
               "implicit integrators: CFL <= 2 on nonlinear models, up to 100 on linear convection; not combined with euler2d (unsupported by calc_jacobian)"]

INLETS = ["insub", "insub_cbc"]
OUTLETS = ["outsub", "outsub_prim", "outsub_qtot", "outsub_rh", "outsub_nrcbc"]


# ---------------------------------------------------------------- uniform state + compatible boundary conditions
def uniform_prim(md, st_, n):
    name = md["name"]
    if name in ("convection", "burgers"):
        return [np.full(n, float(st_["u"]))]
    if name == "shallowwater":
        h = math.exp(st_["lnh"])
        return [np.full(n, h), np.full(n, st_["mach"] * math.sqrt(md.get("g", 9.81) * h))]
    g = md.get("gamma", 1.4)
    rho, p = math.exp(st_["lnrho"]), math.exp(st_["lnp"])
    c = math.sqrt(g * p / rho)
    if name == "euler2d":
        return [np.full(n, rho), np.vstack([np.full(n, st_["mach"] * c * math.cos(st_["angle"])), np.full(n, st_["mach"] * c * math.sin(st_["angle"]))]), np.full(n, p)]
    return [np.full(n, rho), np.full(n, st_["mach"] * c), np.full(n, p)]


LOWMACH = 3e-5      # below this Mach number the velocity deduced from a total/static pressure ratio is mostly rounding: treated as rest


def _lowmach_slack(m, gamma=1.4):
    """the isentropic relation is flat at M = 0: M^2 = 2/(g-1) ((ptot/p)^((g-1)/g) - 1) carries an absolute rounding error ~ 2 ulp/(g-1), hence the Mach
    number an error ~ ulp/((g-1) M) and the enthalpy flux u*H (H = c^2/(g-1)) one of ~ ulp/((g-1)^2 M) in units of rho c^3.  Allowance (4x that) for
    0 < M < 1e-2, on top of the usual tolerance; measured worst case: 0.23 x ulp/((g-1)^2 M)."""
    a = abs(m)
    return 4 * 2.2e-16 / (a * (gamma - 1.0) ** 2) if 0.0 < a < 1e-2 else 0.0


def resolve1d(md, st_, kind, inlet, outlet, lowmach=False):
    """-> (state descriptor with the Mach number moved into the regime of `kind`, bcL, bcR)"""
    name = md["name"]
    s = dict(st_)
    if name in ("convection", "burgers"):
        u = s["u"]
        if kind == "dirichlet":
            return s, {"type": "dirichlet", "prim": [u]}, {"type": "dirichlet", "prim": [u]}
        return s, {"type": "per"}, {"type": "per"}
    m = s["mach"]
    if name == "nozzle":
        m = 0.0
    if kind == "wall":
        m = 0.0
    elif kind == "subsonic":
        # velocity from a total/static pressure ratio is ill-conditioned for 0 < M << 1 (error ~ ulp/(2M)): rest or M >= 3e-3
        # (solves: rest or M >= 3e-3; the operator-level checks also cover 3e-5 <= M < 3e-3 with the conditioning allowance _lowmach_slack)
        if lowmach and st_.get("lowmach") is not None:
            m = math.copysign(st_["lowmach"], m if m != 0 else 1.0)
        elif st_.get("nearsonic") is not None:
            m = math.copysign(st_["nearsonic"], m if m != 0 else 1.0)            # high subsonic: 0.85 .. 0.999
        else:
            m = 0.95 * m / 3.0 if abs(m) >= 0.01 else 0.0
    elif kind == "anyregime":
        if not lowmach:          # (solves: treated as the ordinary supersonic case)
            kind = "supersonic"
            m = math.copysign(1.05 + 2.0 * abs(m) / 3.0, m if m != 0 else 1.0)
        else:
            m = math.copysign(1.05 + 2.5 * abs(m), m if m != 0 else 1.0)         # Mach 1.05 .. 8.55
    elif kind == "supersonic":
        if st_.get("nearsonic") is not None:
            m = math.copysign(2.0 - st_["nearsonic"], m if m != 0 else 1.0)      # low supersonic: 1.001 .. 1.15
        else:
            m = math.copysign(1.05 + 2.0 * abs(m) / 3.0, m if m != 0 else 1.0)
    s["mach"] = m
    if name == "shallowwater":
        h = math.exp(s["lnh"])
        u = m * math.sqrt(md.get("g", 9.81) * h)
        if kind == "dirichlet":
            return s, {"type": "dirichlet", "prim": [h, u]}, {"type": "dirichlet", "prim": [h, u]}
        if kind == "wall":
            return s, {"type": "sym"}, {"type": "sym"}
        if kind in ("subsonic", "supersonic"):
            return s, {"type": "inf"}, {"type": "inf"}
        return s, {"type": "per"}, {"type": "per"}
    g = md.get("gamma", 1.4)
    rho, p = math.exp(s["lnrho"]), math.exp(s["lnp"])
    u = m * math.sqrt(g * p / rho)
    pt, rt = _tot(g, rho, u * u, p)
    pt, rt = float(pt), float(rt)
    if kind == "dirichlet":
        d = {"type": "dirichlet", "prim": [rho, u, p]}
        return s, dict(d), dict(d)
    if kind == "wall":
        if name == "nozzle" and outlet in OUTLETS and outlet != "outsub_qtot":
            return s, {"type": "sym"}, {"type": outlet, "p": p}
        return s, {"type": "sym"}, {"type": "sym"}
    if kind == "subsonic":
        bi = {"type": inlet, "ptot": pt, "rttot": rt}
        bo = {"type": outlet, "p": p}
        return (s, bi, bo) if m >= 0 else (s, bo, bi)
    if kind == "supersonic":
        bi = {"type": "insup", "ptot": pt, "rttot": rt, "p": p}
        bo = {"type": "outsup"}
        return (s, bi, bo) if m >= 0 else (s, bo, bi)
    if kind == "anyregime":
        # the statement holds for any condition whose parameters are those of the state, whatever the regime: the total-state inlets and the pressure outlets
        # with a supersonic or hypersonic uniform state (operator-level checks)
        bi = {"type": inlet, "ptot": pt, "rttot": rt}
        bo = {"type": outlet, "p": p}
        return (s, bi, bo) if m >= 0 else (s, bo, bi)
    if kind == "mixed":     # dirichlet upstream, supersonic outlet downstream
        s["mach"] = m = math.copysign(1.05 + 2.0 * abs(m) / 3.0, m if m != 0 else 1.0)
        u = m * math.sqrt(g * p / rho)
        d = {"type": "dirichlet", "prim": [rho, u, p]}
        return (s, d, {"type": "outsup"}) if m >= 0 else (s, {"type": "outsup"}, d)
    return s, {"type": "per"}, {"type": "per"}


def _state1d(md):
    name = md["name"]
    ln = st.one_of(gen.f(-6.9, 6.9), st.sampled_from([0.0, 1.0, -1.0]))
    mach = st.one_of(gen.f(-3, 3), st.sampled_from([0.0, 0.5, -0.5, 1.0, -1.0, 2.0, -2.0, 3.0]))
    if name in ("convection", "burgers"):
        return st.builds(lambda u: dict(u=u), st.one_of(gen.sfloat(-2, 2), st.just(1.0)).filter(lambda u: not (name == "burgers" and u == 0.0)))
    if name == "shallowwater":
        return st.builds(lambda h, m: dict(lnh=h, mach=m), ln, mach)
    low = st.one_of(st.none(), st.none(), st.none(), gen.logf(-4.5, -2.0))       # occasionally a very low subsonic Mach number (operator-level checks only)
    near = st.one_of(st.none(), st.none(), st.none(), st.sampled_from([0.85, 0.9, 0.95, 0.97, 0.99, 0.999]), gen.f(0.85, 0.999))     # occasionally transonic
    return st.builds(lambda r, p, m, lo, ns: dict(lnrho=r, lnp=p, mach=m, lowmach=lo, nearsonic=ns), ln, ln, mach, low, near)


def _kinds(md):
    name = md["name"]
    if name in ("convection", "burgers"):
        return ["per", "dirichlet"]
    if name == "nozzle":
        return ["wall", "dirichlet"]
    if name == "shallowwater":
        return ["per", "dirichlet", "wall", "subsonic"]
    return ["per", "dirichlet", "wall", "subsonic", "subsonic", "supersonic", "mixed", "anyregime"]


def _models():
    return st.one_of(gen.model_convection(), gen.model_burgers(), gen.model_shallowwater(), gen.model_euler1d(), gen.model_euler1d(), gen.model_nozzle(varying=True))


def _cfg1d(md, nmax, solve, tier):
    fmd = md if md["name"] != "nozzle" else dict(name="euler1d")
    ex, im = cases.integrator_names()
    lin = md["name"] == "convection"
    explicit = st.builds(lambda i, c: (i, c), st.sampled_from(ex), gen.f(0.05, 1.5))
    implicit = st.builds(lambda i, c: (i, c), st.sampled_from(im), gen.logf(-2, 2) if lin else gen.f(0.05, 2.0))
    base = st.builds(lambda me, num, s, fl, kind, i, o: dict(model=md, mesh=me, num=num, ustate=s, flux=fl, kind=kind, inlet=i, outlet=o),
                     (gen.mesh_any(1 if md["name"] != "nozzle" else 2, nmax) if solve else gen.mesh_any_or_big(1 if md["name"] != "nozzle" else 2, nmax)), gen.num_any(), _state1d(md), st.sampled_from(cases.flux_names(fmd)), st.sampled_from(_kinds(md)),
                     st.sampled_from(INLETS), st.sampled_from(OUTLETS))
    if not solve:
        return base
    return st.builds(lambda b, ic, ns, dtl: dict(b, integ=ic[0], cfl=ic[1], nsteps=ns, dtlocal=dtl), base, st.one_of(explicit, explicit, implicit),
                     st.integers(1, 5 if tier == "quick" else 10), st.booleans())


def strat_op1d(tier):
    nmax = 20 if tier == "quick" else 40
    return _models().flatmap(lambda md: _cfg1d(md, nmax, False, tier))


def strat_solve1d(tier):
    nmax = 10 if tier == "quick" else 24
    return _models().flatmap(lambda md: _cfg1d(md, nmax, True, tier))


def _build1d(case, model=None, reverse=False, lowmach=False):
    md = case["model"]
    ust = dict(case["ustate"])
    if reverse:          # the same problem with the flow in the other direction (used with the SAME model object)
        for key in ("mach", "u"):
            if key in ust:
                ust[key] = -ust[key]
    s, bcL, bcR = resolve1d(md, ust, case["kind"], case["inlet"], case["outlet"], lowmach=lowmach)
    if model is None:
        model = cases.build_model(md)
    mesh = cases.build_mesh(case["mesh"])
    xf = np.asarray(mesh.xf, dtype=float)
    n = len(xf) - 1
    smd = md if md["name"] != "nozzle" else dict(name="euler1d", gamma=md.get("gamma", 1.4))
    prim = uniform_prim(smd, s, n)
    disc = cases.build_disc(model, mesh, case["num"], case["flux"], bcL, bcR)
    f = cases.build_field(model, mesh, cases.cons_from_prim(smd, prim))
    return md, smd, s, bcL, bcR, model, mesh, xf, n, prim, disc, f


def _tolfac(md, bcL, bcR, mach=0.0):
    inout = any(b["type"] not in ("per", "dirichlet", "sym", "inf", "outsup") for b in (bcL, bcR))
    return (1e-11 / (md.get("gamma", 1.4) - 1.0) + _lowmach_slack(mach, md.get("gamma", 1.4))) if inout else 1e-12


def check_op1d(case):
    md, smd, s, bcL, bcR, model, mesh, xf, n, prim, disc, f = _build1d(case, lowmach=True)
    r = [np.asarray(x, dtype=float) for x in disc.rhs(f)]
    dxmin = float(np.min(xf[1:] - xf[:-1]))
    scales = [float(np.max(x)) for x in sim.natural_scales(smd, prim)]
    tf = _tolfac(smd, bcL, bcR, s.get("mach", 0.0))
    worst = 0.0
    for k in range(len(r)):
        require(np.all(np.isfinite(r[k])), "residual-finite", "residual of a uniform state is not finite (%s, bc %s/%s)" % (md["name"], bcL["type"], bcR["type"]))
        e = float(np.max(np.abs(r[k]))) * dxmin / scales[k]
        require(e <= tf, "uniform-residual", "equation %d: |R|*dx_min/scale = %.3g for a uniform state (%s/%s, %s, bc %s/%s, %s mesh, Mach %.3g)"
                % (k, e, md["name"], case["flux"], case["num"].get("limiter", case["num"]["name"]), bcL["type"], bcR["type"], case["mesh"]["kind"], s.get("mach", 0.0)))
        worst = max(worst, e / tf)
    target(worst, "uniform-residual/tol")
    # the same model OBJECT then serves the reversed flow (inlet and outlet exchanged): a model must not remember the first problem it saw
    if md["name"] not in ("convection",):
        md2, smd2, s2, bcL2, bcR2, model2, mesh2, xf2, n2, prim2, disc2, f2 = _build1d(case, model=model, reverse=True, lowmach=True)
        r2 = [np.asarray(x, dtype=float) for x in disc2.rhs(f2)]
        tf2 = _tolfac(smd2, bcL2, bcR2, s2.get("mach", 0.0))
        for k in range(len(r2)):
            require(np.all(np.isfinite(r2[k])), "residual-finite", "residual of a uniform state is not finite for the reversed flow on the same model object (bc %s/%s)" % (bcL2["type"], bcR2["type"]))
            e = float(np.max(np.abs(r2[k]))) * dxmin / scales[k]
            require(e <= tf2, "uniform-residual-reversed-flow", "equation %d: |R|*dx_min/scale = %.3g for the uniform state with reversed flow direction evaluated with the SAME model object "
                    "(%s/%s, bc %s/%s, Mach %.3g)" % (k, e, md["name"], case["flux"], bcL2["type"], bcR2["type"], s2.get("mach", 0.0)))
    return dict(nontrivial=True, labels=["model:" + md["name"], "bc:%s/%s" % (bcL["type"], bcR["type"]), "num:" + case["num"].get("limiter", case["num"]["name"]),
                                        "mach:" + _mlabel(s.get("mach", 0.0)), "flux:%s" % case["flux"]])


def _mlabel(m):
    a = abs(m)
    return "0" if a == 0 else "<3e-3" if a < 3e-3 else "<1" if a < 1 else "1" if a == 1 else ">1"


def check_solve1d(case):
    md, smd, s, bcL, bcR, model, mesh, xf, n, prim, disc, f = _build1d(case)
    solver = cases.build_integrator(case["integ"], mesh, disc)
    Pp = sim.Problem()
    Pp.smd, Pp.prim, Pp.model, Pp.mesh, Pp.disc, Pp.field = smd, prim, model, mesh, disc, f
    sim.preuse_solver(Pp, solver, case, case["cfl"], variant=(sim.solver_history(case) if sim.solver_history(case) != 2 else 3))     # (a colder gas is not compatible with the inlet parameters)
    implicit = cases.is_implicit(case["integ"])
    keep = [d.copy() for d in f.data]
    directives = {"dtlocal": True} if case["dtlocal"] else {}
    res = solver.solve(f, case["cfl"], stop={"maxit": case["nsteps"]}, directives=directives)
    fin = res[-1]
    sc = sim.natural_scales(smd, prim)
    a = _speed(smd, prim)
    tf = _tolfac(smd, bcL, bcR)
    qsc = [float(np.max(sc[k])) / a for k in range(len(keep))]
    amp = _amplification(lambda: cases.build_integrator(case["integ"], mesh, disc), f, qsc, case["cfl"], case["nsteps"], directives)
    tol = (1e-8 if implicit else 10 * tf * max(1.0, case["cfl"])) * case["nsteps"] * max(1.0, amp)
    if amp > 1e3:
        from vf.runner import Skip
        raise Skip("unstable configuration (round-off amplified > 1e3 by the scheme itself)")
    worst = 0.0
    for k in range(len(keep)):
        require(np.all(np.isfinite(fin.data[k])), "solve-finite", "solve from a uniform state returns non-finite data (%s, %s, cfl=%g, bc %s/%s, Mach %.3g, dtlocal=%s)"
                % (md["name"], case["integ"], case["cfl"], bcL["type"], bcR["type"], s.get("mach", 0.0), case["dtlocal"]))
        qs = float(np.max(sc[k])) / a        # natural scale of the conservative variable
        e = float(np.max(np.abs(fin.data[k] - keep[k]))) / qs
        require(e <= tol, "solve-fixed-point", "variable %d drifts by %.3g (relative) from a uniform state in %d steps (%s, cfl=%g, %s/%s, %s, bc %s/%s, %s mesh, dtlocal=%s)"
                % (k, e, case["nsteps"], case["integ"], case["cfl"], md["name"], case["flux"], case["num"].get("limiter", case["num"]["name"]), bcL["type"], bcR["type"], case["mesh"]["kind"], case["dtlocal"]))
        worst = max(worst, e / tol)
        require(np.array_equal(f.data[k], keep[k]), "caller-field-unchanged", "solve modified the caller's initial field")
    target(worst, "fixed-point-drift/tol")
    return dict(nontrivial=True, labels=["model:" + md["name"], "integ:" + case["integ"], "bc:%s/%s" % (bcL["type"], bcR["type"]), "dtlocal" if case["dtlocal"] else "dtglobal",
                                        "mach:" + _mlabel(s.get("mach", 0.0)), "implicit" if implicit else "explicit"])


def _amplification(make_solver, f, qsc, cfl, nsteps, directives):
    """growth factor of a 1e-7 relative perturbation of the uniform state over the same run: a linearly unstable scheme
    (e.g. centred flux + explicit integrator beyond its stability limit) amplifies round-off just as much"""
    g = f.copy()
    n = g.data[0].shape[-1]
    pat = np.sin(1.0 + 2.3 * np.arange(n)) + 0.3
    for k, d in enumerate(g.data):
        if d.ndim == 2:
            d += 1e-7 * qsc[min(k, len(qsc) - 1)] * np.vstack([pat, -pat])
        else:
            d += 1e-7 * qsc[min(k, len(qsc) - 1)] * pat * (1.0 if k != 1 else -1.0)
    try:
        r = make_solver().solve(g, cfl, stop={"maxit": nsteps}, directives=directives)[-1]
    except Exception:
        return 1.0
    amp = 0.0
    for k, (d1, d0) in enumerate(zip(r.data, f.data)):
        e = float(np.max(np.abs(np.asarray(d1) - np.asarray(d0)))) / (1e-7 * qsc[min(k, len(qsc) - 1)])
        if e == e:
            amp = max(amp, e)
        else:
            return float("inf")
    return amp


def _speed(md, prim):
    name = md["name"]
    if name == "convection":
        return abs(md["a"])
    if name == "burgers":
        return float(np.max(np.abs(prim[0]))) + 1e-300
    if name == "shallowwater":
        return float(np.max(np.abs(prim[1]) + np.sqrt(md.get("g", 9.81) * prim[0])))
    c = np.sqrt(md.get("gamma", 1.4) * prim[2] / prim[0])
    if name == "euler2d":
        return float(np.max(np.sqrt(prim[1][0] ** 2 + prim[1][1] ** 2) + c))
    return float(np.max(np.abs(prim[1]) + c))


# ---------------------------------------------------------------- 2-D
KINDS2D = ["per", "dirichlet", "subsonic-x", "subsonic-y", "supersonic-x", "supersonic-y", "supersonic-angled", "rest-walls", "dirichlet-per"]


def resolve2d(g, st_, kind, other, outlet_rest, lowmach=False):
    s = dict(st_)
    rho, p = math.exp(s["lnrho"]), math.exp(s["lnp"])
    c = math.sqrt(g * p / rho)
    m, ang = abs(s["mach"]), s["angle"]
    per, sym = {"type": "per"}, {"type": "sym"}
    oth = per if other == "per" else sym

    def dirich(u, v):
        return {"type": "dirichlet", "prim": [rho, np.array([[u], [v]]), p]}
    if kind == "per":
        s["mach"] = m
        return s, dict(left=per, right=per, bottom=per, top=per)
    if kind == "dirichlet":
        s["mach"] = m
        d = dirich(m * c * math.cos(ang), m * c * math.sin(ang))
        return s, dict(left=d, right=d, bottom=d, top=d)
    if kind == "dirichlet-per":
        s["mach"] = m
        d = dirich(m * c * math.cos(ang), m * c * math.sin(ang))
        return s, dict(left=d, right=d, bottom=per, top=per)
    if kind == "rest-walls":
        s["mach"] = 0.0
        if outlet_rest:
            return s, dict(left=sym, right={"type": "outsub", "p": p}, bottom=sym, top=sym)
        return s, dict(left=sym, right=sym, bottom=sym, top=sym)
    sub = kind.startswith("subsonic")
    mm = (0.95 * m / 3.0 if m >= 0.01 else 0.0) if sub else 1.05 + 2.0 * m / 3.0
    if st_.get("nearsonic") is not None and kind != "supersonic-angled":
        mm = st_["nearsonic"] if sub else 2.0 - st_["nearsonic"]
    if sub and lowmach and st_.get("lowmach") is not None:
        mm = st_["lowmach"]
    s["mach"] = mm
    pt, rt = _tot(g, rho, (mm * c) ** 2, p)
    pt, rt = float(pt), float(rt)
    bi = {"type": "insub", "ptot": pt, "rttot": rt} if sub else {"type": "insup", "ptot": pt, "rttot": rt, "p": p}
    bo = {"type": "outsub", "p": p} if sub else {"type": "outsup"}
    neg = math.cos(ang) < 0
    if kind.endswith("-x"):
        s["angle"] = math.pi if neg else 0.0
        return s, (dict(left=bo, right=bi, bottom=oth, top=oth) if neg else dict(left=bi, right=bo, bottom=oth, top=oth))
    if kind.endswith("-y"):
        s["angle"] = -math.pi / 2 if neg else math.pi / 2
        return s, (dict(left=oth, right=oth, bottom=bo, top=bi) if neg else dict(left=oth, right=oth, bottom=bi, top=bo))
    # supersonic-angled: angle in the open first quadrant (both components entering through left and bottom), imposed through 'angle'
    deg = 5.0 + 80.0 * (abs(ang) % math.pi) / math.pi
    s["angle"] = math.radians(deg)
    bia = dict(bi, angle=deg)
    return s, dict(left=bia, bottom=bia, right=bo, top=bo)


def _cfg2d(nmax, solve, tier):
    ln = st.one_of(gen.f(-4.6, 4.6), st.just(0.0))
    ust = st.builds(lambda r, p, m, a, lo, ns: dict(lnrho=r, lnp=p, mach=m, angle=a, lowmach=lo, nearsonic=ns), ln, ln, st.one_of(gen.f(0, 3), st.sampled_from([0.0, 0.5, 1.0, 2.0])),
                    st.one_of(gen.f(-math.pi, math.pi), st.sampled_from([0.0, math.pi / 2, math.pi / 4, -math.pi / 2, math.pi])),
                    st.one_of(st.none(), st.none(), st.none(), gen.logf(-4.5, -2.0)),
                    st.one_of(st.none(), st.none(), st.none(), st.sampled_from([0.85, 0.9, 0.95, 0.97, 0.99, 0.999]), gen.f(0.85, 0.999)))
    ex, im = cases.integrator_names()
    base = st.builds(lambda md, me, num, fl, s, kind, oth, orest: dict(model=md, mesh2d=me, num=num, flux=fl, ustate=s, kind=kind, other=oth, outlet_rest=orest),
                     gen.model_euler2d(), gen.mesh2d(1, nmax), gen.num2d_any(), st.sampled_from(cases.flux_names(dict(name="euler2d"))), ust, st.sampled_from(KINDS2D),
                     st.sampled_from(["per", "sym"]), st.booleans())
    if not solve:
        return base
    return st.builds(lambda b, i, c, ns, dtl: dict(b, integ=i, cfl=c, nsteps=ns, dtlocal=dtl), base, st.sampled_from(ex), gen.f(0.05, 1.2), st.integers(1, 4 if tier == "quick" else 8), st.booleans())


def strat_op2d(tier):
    return _cfg2d(6 if tier == "quick" else 12, False, tier)


def strat_solve2d(tier):
    return _cfg2d(4 if tier == "quick" else 8, True, tier)


def _build2d(case, lowmach=False):
    md = case["model"]
    g = md.get("gamma", 1.4)
    s, bc = resolve2d(g, case["ustate"], case["kind"], case["other"], case["outlet_rest"], lowmach=lowmach)
    model = cases.build_model(md)
    mesh = cases.build_mesh2d(case["mesh2d"])
    n = case["mesh2d"]["nx"] * case["mesh2d"]["ny"]
    prim = uniform_prim(md, s, n)
    disc = cases.build_disc2d(model, mesh, case["num"], case["flux"], bc)
    f = cases.build_field(model, mesh, cases.cons_from_prim(md, prim))
    return md, s, bc, model, mesh, n, prim, disc, f


def _comps(data):
    return [np.asarray(data[0], dtype=float), np.asarray(data[1][0], dtype=float), np.asarray(data[1][1], dtype=float), np.asarray(data[2], dtype=float)]


def check_op2d(case):
    md, s, bc, model, mesh, n, prim, disc, f = _build2d(case, lowmach=True)
    r = _comps(disc.rhs(f))
    dmin = min(case["mesh2d"]["lx"] / case["mesh2d"]["nx"], case["mesh2d"]["ly"] / case["mesh2d"]["ny"])
    sc = sim.natural_scales(md, prim)
    scales = [float(np.max(sc[0])), float(np.max(sc[1])), float(np.max(sc[1])), float(np.max(sc[2]))]
    inout = case["kind"].startswith("sub") or case["kind"].startswith("super")
    tf = (1e-11 / (md.get("gamma", 1.4) - 1.0) + _lowmach_slack(s["mach"], md.get("gamma", 1.4))) if inout else 1e-12
    worst = 0.0
    for k in range(4):
        require(np.all(np.isfinite(r[k])), "residual-finite-2d", "2-D residual of a uniform state is not finite (%s)" % case["kind"])
        e = float(np.max(np.abs(r[k]))) * dmin / scales[k]
        require(e <= tf, "uniform-residual-2d", "equation %d: |R|*d_min/scale = %.3g for a uniform 2-D state (%s/%s, %s, other=%s, %dx%d, Mach %.3g angle %.3g)"
                % (k, e, case["flux"], case["num"]["name"], case["kind"], case["other"], case["mesh2d"]["nx"], case["mesh2d"]["ny"], s["mach"], s["angle"]))
        worst = max(worst, e / tf)
    target(worst, "uniform-residual-2d/tol")
    return dict(nontrivial=True, labels=["kind:" + case["kind"], "other:" + case["other"], "flux:" + case["flux"], "num:" + case["num"]["name"], "mach:" + _mlabel(s["mach"])])


def check_solve2d(case):
    md, s, bc, model, mesh, n, prim, disc, f = _build2d(case)
    solver = cases.build_integrator(case["integ"], mesh, disc)
    keep = _comps(f.data)
    directives = {"dtlocal": True} if case["dtlocal"] else {}
    res = solver.solve(f, case["cfl"], stop={"maxit": case["nsteps"]}, directives=directives)
    fin = _comps(res[-1].data)
    sc = sim.natural_scales(md, prim)
    a = _speed(md, prim)
    qs = [float(np.max(sc[0])) / a, float(np.max(sc[1])) / a, float(np.max(sc[1])) / a, float(np.max(sc[2])) / a]
    inout = case["kind"].startswith("sub") or case["kind"].startswith("super")
    tf = (1e-11 / (md.get("gamma", 1.4) - 1.0)) if inout else 1e-12
    amp = _amplification(lambda: cases.build_integrator(case["integ"], mesh, disc), f, [qs[0], qs[1], qs[3]], case["cfl"], case["nsteps"], directives)
    if amp > 1e3:
        from vf.runner import Skip
        raise Skip("unstable configuration (round-off amplified > 1e3 by the scheme itself)")
    tol = 10 * tf * max(1.0, case["cfl"]) * case["nsteps"] * max(1.0, amp)
    for k in range(4):
        require(np.all(np.isfinite(fin[k])), "solve-finite-2d", "2-D solve from a uniform state returns non-finite data (%s, %s)" % (case["integ"], case["kind"]))
        e = float(np.max(np.abs(fin[k] - keep[k]))) / qs[k]
        require(e <= tol, "solve-fixed-point-2d", "variable %d drifts by %.3g (relative) from a uniform 2-D state in %d steps (%s, cfl=%g, %s/%s, %s, dtlocal=%s)"
                % (k, e, case["nsteps"], case["integ"], case["cfl"], case["flux"], case["num"]["name"], case["kind"], case["dtlocal"]))
    return dict(nontrivial=True, labels=["kind:" + case["kind"], "integ:" + case["integ"], "dtlocal" if case["dtlocal"] else "dtglobal"])


SUBCHECKS = [
    SubCheck("operator1d", check_op1d, strategy=strat_op1d, examples={"quick": 500, "thorough": 3000}, shards={"quick": 4, "thorough": 16}),
    SubCheck("operator2d", check_op2d, strategy=strat_op2d, examples={"quick": 300, "thorough": 2000}, shards={"quick": 3, "thorough": 12}),
    SubCheck("solve1d", check_solve1d, strategy=strat_solve1d, examples={"quick": 200, "thorough": 1200}, shards={"quick": 6, "thorough": 16}),
    SubCheck("solve2d", check_solve2d, strategy=strat_solve2d, examples={"quick": 100, "thorough": 700}, shards={"quick": 3, "thorough": 12}),
]

META = dict(
    level_text="Generated search over uniform states (any Mach number and direction, any angle in 2-D), meshes, reconstructions, fluxes and every compatible boundary set (parameters "
               "computed by the oracle from the state); the residual must vanish to round-off and complete solves with every integrator (global and local time step) must return "
               "the state. Exploration only.",
    level_note="trusted: numpy; total-quantity formulas of vf/props/c16.py; tolerances 1e-12 (1e-11/(gamma-1) with inlet/outlet conditions) x flux scale / dx_min",
    technique="property-based testing (Hypothesis given): fixed-point invariant of the operator and of complete solves over generated compatible configurations",
)
