"""C15 - the 2-D Cartesian solver agrees with the 1-D solver and with the grid symmetries.

(a) differential: data that do not vary along one grid direction -> every row (column) of the 2-D residual equals the 1-D Euler residual
    computed by the 1-D discretisation with the same flux / reconstruction order (the transverse momentum only rides along);
(b) metamorphic: transposing the problem transposes the residual, reflecting it in x or y reflects the residual.
"""
import math

import numpy as np
from hypothesis import strategies as st

from vf import cases, gen, sim
from vf.props.c16 import _tot
from vf.runner import Skip, SubCheck, require, target

RULE = ("(a) 1-D profile (rho,u,p smooth or rough) tiled along y or x, transverse velocity 0 or uniform v != 0 (then only with periodic/wall/copy sides), nx in 2..10, ny in 1..6, lx != ly, "
        "{centered, hlle} x {extrapol2d1 <-> extrapol1, extrapol2dk(k) <-> extrapolk(k)}, in-line boundaries {per, sym, insub, insup, outsub, outsup} on either end, transverse "
        "{per, sym}; (b) random admissible 2-D data, boundary tags {per, sym, insub, insup, outsub, outsup, dirichlet} on any side, transpose and x / y reflections. non-trivial = data "
        "varying along the non-trivial direction (a) / not symmetric under the map (b); distinct = distinct canonical JSON")
ASSUMPTIONS = ["tolerance 1e-11 x natural flux scale / cell size (a), 1e-12 (b)", "the 1-D reference is flowdyn's own 1-D discretisation (the property is a 2-D/1-D agreement); the 1-D operator itself is decided by C01-C03, C11, C16"]

LR_ALL = ["per", "sym", "insub", "insup", "outsub", "outsup"]
LR_COPY = ["per", "sym", "outsub", "outsup"]


def _bcparams(g, t, rho, u2, p, case=None):
    pt, rt = _tot(g, rho, u2, p)
    d = {"type": t}
    # the imposed total pressure is usually above every interior total pressure; for a deterministic quarter of the cases it sits at the geometric mean of the
    # interior STATIC pressures, so that at some inlet faces the interior pressure exceeds it (blocked inlet: the inlet Mach number is clipped to zero there)
    import zlib
    low = case is not None and zlib.crc32(repr(sorted((k, repr(v)) for k, v in case.items())).encode()) % 4 == 0
    if t in ("insub", "insup"):
        # (0.97 x the geometric mean: with equal interior pressures the faces are clearly blocked, never within round-off of ptot = p, where the inlet Mach number
        # sqrt(m2) is ill-conditioned - see C03)
        d["ptot"] = 1.25 * float(np.max(pt)) if not low else 0.97 * float(np.exp(np.mean(np.log(p))))
        d["rttot"] = 1.25 * float(np.max(rt))
    if t == "insup":
        d["p"] = 0.5 * float(np.max(p))
    if t == "outsub":
        d["p"] = 0.9 * float(np.exp(np.mean(np.log(p))))
    return d


# ---------------------------------------------------------------- (a) 2-D vs 1-D
def strat_rows(tier):
    nmax = 8 if tier == "quick" else 10
    vals = lambda lo, hi: gen.prof_rough(lo, hi)
    return st.builds(lambda g, n, nt, ll, lt, along, rough, s_r, s_s, v, fl, k, tl, tr, tt: dict(
        gamma=g, n=n, nt=nt, ll=ll, lt=lt, along=along, state=(s_r if rough else s_s), v=v, flux=fl, k=(None if rough else k), bcl=tl, bcr=tr, bct=tt),
        gen.GAMMAS, st.integers(2, nmax), st.integers(1, 6), st.one_of(gen.logf(-1, 1), gen.logf(-9, 4)), st.one_of(gen.logf(-1, 1), gen.logf(-9, 4)), st.sampled_from(["x", "y"]), st.booleans(),
        gen.state_euler(True, lnrange=1.0, machmax=2.0), gen.state_euler(False, lnrange=0.7, machmax=1.5, smooth_amp=0.05),
        st.one_of(st.just(0.0), st.just(0.0), gen.f(-1.5, 1.5)), st.sampled_from(["centered", "hlle"]),
        st.one_of(st.none(), gen.f(-1, 1), st.sampled_from([-1.0, 0.0, 1.0 / 3.0, 1.0])), st.sampled_from(LR_ALL), st.sampled_from(LR_ALL), st.sampled_from(["per", "sym"]))


def check_rows(case):
    g = case["gamma"]
    n, nt = case["n"], case["nt"]
    ll, lt = case["ll"], case["lt"]
    along = case["along"]
    md1 = dict(name="euler1d", gamma=g)
    s = (np.arange(n) + 0.5) / n
    rho, u, p = cases.prim_state(md1, case["state"], s)
    c = np.sqrt(g * p / rho)
    v = case["v"] * float(np.mean(c))
    tl, tr, tt = case["bcl"], case["bcr"], case["bct"]
    if (tl == "per") != (tr == "per"):
        tr = tl
    if v != 0.0:
        # a uniform transverse velocity is only compatible with sides that keep it (periodic, wall, copy)
        tl = tl if tl in LR_COPY else "outsub"
        tr = tr if tr in LR_COPY else "outsup"
        if (tl == "per") != (tr == "per"):
            tr = tl
        tt = "per"
    bl = _bcparams(g, tl, rho, u * u, p, case)
    br = _bcparams(g, tr, rho, u * u, p, case)
    # 1-D reference
    model1 = cases.build_model(md1)
    mesh1 = cases.build_mesh(dict(kind="uni", n=n, length=ll, x0=0.0))
    num1 = dict(name="extrapol1") if case["k"] is None else dict(name="extrapolk", k=case["k"])
    disc1 = cases.build_disc(model1, mesh1, num1, case["flux"], dict(bl), dict(br))
    f1 = cases.build_field(model1, mesh1, cases.cons_from_prim(md1, [rho, u, p]))
    r1 = [np.array(x, dtype=float) for x in disc1.rhs(f1)]
    if not all(np.all(np.isfinite(x)) for x in r1):
        sim.nonfinite_operator(num1)
    # 2-D problem
    md2 = dict(name="euler2d", gamma=g)
    model2 = cases.build_model(md2)
    if along == "x":
        nx, ny, lx, ly = n, nt, ll, lt
        idx = np.arange(nx * ny) % nx
        V = np.vstack([u[idx], np.full(nx * ny, v)])
        bc = dict(left=dict(bl), right=dict(br), bottom={"type": tt}, top={"type": tt})
    else:
        nx, ny, lx, ly = nt, n, lt, ll
        idx = np.arange(nx * ny) // nx
        V = np.vstack([np.full(nx * ny, v), u[idx]])
        bc = dict(bottom=dict(bl), top=dict(br), left={"type": tt}, right={"type": tt})
    mesh2 = cases.build_mesh2d(dict(nx=nx, ny=ny, lx=lx, ly=ly))
    num2 = dict(name="extrapol2d1") if case["k"] is None else dict(name="extrapol2dk", k=case["k"])
    disc2 = cases.build_disc2d(model2, mesh2, num2, case["flux"], bc)
    # a second operator on the transposed grid, built with the SAME model object before the first one is evaluated
    per = {"type": "per"}
    cases.build_disc2d(model2, cases.build_mesh2d(dict(nx=ny, ny=nx, lx=ly, ly=lx)), num2, case["flux"], dict(left=per, right=per, bottom=per, top=per))
    f2 = cases.build_field(model2, mesh2, cases.cons_from_prim(md2, [rho[idx], V, p[idx]]))
    r2 = disc2.rhs(f2)
    rm, rmom, re_ = np.asarray(r2[0], dtype=float), np.asarray(r2[1], dtype=float), np.asarray(r2[2], dtype=float)
    inl, trn = (0, 1) if along == "x" else (1, 0)
    a = float(np.max(np.sqrt(u * u + v * v) + c))
    rmax = float(np.max(rho))
    d = ll / n
    sc = [rmax * a / d, rmax * a * a / d, rmax * a ** 3 / d]
    tol = 1e-11
    exp_mass = r1[0][idx]
    exp_in = r1[1][idx]
    exp_tr = v * r1[0][idx]
    exp_e = r1[2][idx] + 0.5 * v * v * r1[0][idx]
    worst = 0.0
    for nm, got, exp, scale in (("mass", rm, exp_mass, sc[0]), ("in-line momentum", rmom[inl], exp_in, sc[1]), ("transverse momentum", rmom[trn], exp_tr, sc[1]), ("energy", re_, exp_e, sc[2])):
        require(np.all(np.isfinite(got)), "rows-finite", "2-D residual (%s) is not finite although the 1-D residual is" % nm)
        e = float(np.max(np.abs(got - exp))) / scale
        kbad = int(np.argmax(np.abs(got - exp)))
        require(e <= tol, "rows-vs-1d", "%s residual of cell %d (row-wise index) is %r, the 1-D operator gives %r (err %.3g x scale; data along %s, %dx%d, %s, k=%r, bc %s/%s transverse %s, v=%.3g)"
                % (nm, kbad, float(got[kbad]), float(exp[kbad]), e, along, nx, ny, case["flux"], case["k"], tl, tr, tt, v))
        worst = max(worst, e)
    if v == 0.0:
        require(np.all(rmom[trn] == 0.0), "transverse-untouched", "transverse momentum residual is not exactly zero for data without transverse velocity")
    target(worst, "rows-error")
    nt_ = bool(np.max(rho) > np.min(rho) or np.max(u) > np.min(u) or np.max(p) > np.min(p))
    return dict(nontrivial=nt_, labels=["along:" + along, "flux:" + case["flux"], "k:" + ("none" if case["k"] is None else "k"), "bc:%s/%s" % (tl, tr), "transverse:" + tt,
                                        "v=0" if v == 0 else "v!=0", "nt:%d" % min(nt, 2)])


# ---------------------------------------------------------------- (b) transpose / reflections
TAGS = ["per", "sym", "insub", "insup", "outsub", "outsup", "dirichlet"]


def strat_sym(tier):
    nmax = 5 if tier == "quick" else 8
    tag = st.sampled_from(TAGS)
    # rough = 0: smooth data, any reconstruction; 1: rough data, first order; 2: rough data, any reconstruction (extrapolated face states may then be
    # inadmissible: the centred flux stays finite, the HLLE flux gives NaN at those faces - in the same places of the original and of the mapped problem)
    return st.builds(lambda g, nx, ny, lx, ly, rough, num, s_r, s_s, fl, tl, tr, tb, tt, mp: dict(
        gamma=g, nx=nx, ny=ny, lx=lx, ly=ly, num=(dict(name="extrapol2d1") if rough == 1 else num), state=(s_r if rough else s_s), flux=fl, left=tl, right=tr, bottom=tb, top=tt, map=mp),
        gen.GAMMAS, st.integers(1, nmax), st.integers(1, nmax), st.one_of(gen.logf(-1, 1), gen.logf(-9, 4)), st.one_of(gen.logf(-1, 1), gen.logf(-9, 4)), st.sampled_from([0, 0, 1, 1, 2]), gen.num2d_any(),
        gen.state_euler2d(True, lnrange=1.0, machmax=2.0), gen.state_euler2d(False, lnrange=0.7, machmax=1.5, smooth_amp=0.05),
        st.sampled_from(["centered", "hlle"]), tag, tag, tag, tag, st.sampled_from(["transpose", "reflect-x", "reflect-y"]))


def _bc2d(g, t, rho, V, p, case=None):
    if t == "dirichlet":
        return {"type": t, "prim": [1.1 * float(rho[0]), np.array([[0.3 * float(V[0][0]) + 0.1], [0.3 * float(V[1][0]) - 0.2]]), 0.9 * float(p[0])]}
    return _bcparams(g, t, rho, V[0] ** 2 + V[1] ** 2, p, case)


def _map_bc(bc, mp):
    out = dict(bc)
    if bc["type"] == "dirichlet":
        r, Vv, p = bc["prim"]
        Vv = np.asarray(Vv, dtype=float)
        if mp == "transpose":
            Vn = Vv[::-1].copy()
        elif mp == "reflect-x":
            Vn = Vv * np.array([[-1.0], [1.0]])
        else:
            Vn = Vv * np.array([[1.0], [-1.0]])
        out["prim"] = [r, Vn, p]
    return out


def _operator(g, nx, ny, lx, ly, num, flux, bc, rho, V, p, model=None):
    """build (not yet evaluate) a 2-D operator; `model` lets two operators share one model object, as user scripts do"""
    md = dict(name="euler2d", gamma=g)
    if model is None:
        model = cases.build_model(md)
    mesh = cases.build_mesh2d(dict(nx=nx, ny=ny, lx=lx, ly=ly))
    disc = cases.build_disc2d(model, mesh, num, flux, bc)
    f = cases.build_field(model, mesh, cases.cons_from_prim(md, [rho, V, p]))
    return model, disc, f


def _evaluate(disc, f):
    r = disc.rhs(f)
    return np.asarray(r[0], dtype=float), np.asarray(r[1], dtype=float), np.asarray(r[2], dtype=float)


def _residual(g, nx, ny, lx, ly, num, flux, bc, rho, V, p):
    _m, disc, f = _operator(g, nx, ny, lx, ly, num, flux, bc, rho, V, p)
    return _evaluate(disc, f)


def check_sym(case):
    g, nx, ny, lx, ly = case["gamma"], case["nx"], case["ny"], case["lx"], case["ly"]
    n = nx * ny
    md = dict(name="euler2d", gamma=g)
    sx = ((np.arange(n) % nx) + 0.5) / nx
    sy = ((np.arange(n) // nx) + 0.5) / ny
    rho, V, p = cases.prim_state(md, case["state"], sx, sy)
    tags = {k: case[k] for k in ("left", "right", "bottom", "top")}
    if (tags["left"] == "per") != (tags["right"] == "per"):
        tags["right"] = tags["left"]
    if (tags["bottom"] == "per") != (tags["top"] == "per"):
        tags["top"] = tags["bottom"]
    bc = {k: _bc2d(g, t, rho, V, p, case) for k, t in tags.items()}
    # the original and the mapped problem share ONE model object and both operators are built before either is evaluated
    # (mesh-dependent data cached on the model or on a class would then leak from one operator into the other)
    shared, disc0, f0 = _operator(g, nx, ny, lx, ly, case["num"], case["flux"], bc, rho, V, p)
    mp = case["map"]
    grid = lambda a: np.asarray(a, dtype=float).reshape(ny, nx)
    if mp == "transpose":
        T = lambda a: grid(a).T.reshape(-1)
        rho2, p2 = T(rho), T(p)
        V2 = np.vstack([T(V[1]), T(V[0])])
        bc2 = dict(left=_map_bc(bc["bottom"], mp), right=_map_bc(bc["top"], mp), bottom=_map_bc(bc["left"], mp), top=_map_bc(bc["right"], mp))
        _m, disc1, f1 = _operator(g, ny, nx, ly, lx, case["num"], case["flux"], bc2, rho2, V2, p2, model=shared)
        r0 = _evaluate(disc0, f0)
        r1 = _evaluate(disc1, f1)
        back = lambda a: np.asarray(a, dtype=float).reshape(nx, ny).T.reshape(-1)
        got = (back(r1[0]), np.vstack([back(r1[1][1]), back(r1[1][0])]), back(r1[2]))
    elif mp == "reflect-x":
        T = lambda a: grid(a)[:, ::-1].reshape(-1)
        rho2, p2 = T(rho), T(p)
        V2 = np.vstack([-T(V[0]), T(V[1])])
        bc2 = dict(left=_map_bc(bc["right"], mp), right=_map_bc(bc["left"], mp), bottom=_map_bc(bc["bottom"], mp), top=_map_bc(bc["top"], mp))
        _m, disc1, f1 = _operator(g, nx, ny, lx, ly, case["num"], case["flux"], bc2, rho2, V2, p2, model=shared)
        r0 = _evaluate(disc0, f0)
        r1 = _evaluate(disc1, f1)
        got = (T(r1[0]), np.vstack([-T(r1[1][0]), T(r1[1][1])]), T(r1[2]))
    else:
        T = lambda a: grid(a)[::-1, :].reshape(-1)
        rho2, p2 = T(rho), T(p)
        V2 = np.vstack([T(V[0]), -T(V[1])])
        bc2 = dict(left=_map_bc(bc["left"], mp), right=_map_bc(bc["right"], mp), bottom=_map_bc(bc["top"], mp), top=_map_bc(bc["bottom"], mp))
        _m, disc1, f1 = _operator(g, nx, ny, lx, ly, case["num"], case["flux"], bc2, rho2, V2, p2, model=shared)
        r0 = _evaluate(disc0, f0)
        r1 = _evaluate(disc1, f1)
        got = (T(r1[0]), np.vstack([T(r1[1][0]), -T(r1[1][1])]), T(r1[2]))
    nonfinite = not all(np.all(np.isfinite(x)) for x in r0)
    if nonfinite and case["num"]["name"] == "extrapol2d1":
        sim.nonfinite_operator(case["num"])
    if nonfinite:
        # inadmissible extrapolated face states (high-order reconstruction of rough data): the non-finite entries must sit in the mapped places
        for k, nm in enumerate(("mass", "momentum", "energy")):
            require(np.array_equal(np.isfinite(got[k]), np.isfinite(r0[k])), "grid-symmetry-nonfinite-pattern", "%s residual: the non-finite entries of the %s problem are not the images of those of the original (%dx%d, %s/%s)"
                    % (nm, mp, nx, ny, case["flux"], case["num"]["name"]))
        ok = [np.isfinite(x) for x in r0]
        if not any(np.any(m) for m in ok):
            raise Skip("extrapolated face states outside the admissible set everywhere")
        r0 = tuple(np.where(m, x, 0.0) for m, x in zip(ok, r0))
        got = tuple(np.where(m, x, 0.0) for m, x in zip(ok, got))
    c = np.sqrt(g * p / rho)
    a = float(np.max(np.sqrt(V[0] ** 2 + V[1] ** 2) + c))
    # boundary states (dirichlet / inlets) may be larger than the data: widen the scale by the largest residual
    rmax = float(np.max(rho))
    d = min(lx / nx, ly / ny)
    sc = [rmax * a / d, rmax * a * a / d, rmax * a ** 3 / d]
    sc = [max(sc[0], float(np.max(np.abs(r0[0])))), max(sc[1], float(np.max(np.abs(r0[1])))), max(sc[2], float(np.max(np.abs(r0[2]))))]
    worst = 0.0
    for k, nm in enumerate(("mass", "momentum", "energy")):
        e = float(np.max(np.abs(got[k] - r0[k]))) / sc[k]
        require(e <= 1e-12, "grid-symmetry", "%s residual is not %s-covariant: error %.3g x scale (%dx%d, %s/%s, tags l=%s r=%s b=%s t=%s)"
                % (nm, mp, e, nx, ny, case["flux"], case["num"]["name"], tags["left"], tags["right"], tags["bottom"], tags["top"]))
        worst = max(worst, e)
    target(worst, "symmetry-error")
    same = np.array_equal(rho2, rho) and np.array_equal(V2, V) and np.array_equal(p2, p) and nx == ny
    return dict(nontrivial=not same, labels=["map:" + mp, "flux:" + case["flux"], "num:" + case["num"]["name"], "nx=ny" if nx == ny else "nx!=ny", "lx=ly" if lx == ly else "lx!=ly", "nonfinite-entries" if nonfinite else "finite"]
                + ["%s:%s" % (k[0], t) for k, t in sorted(tags.items())])


SUBCHECKS = [
    SubCheck("rows_vs_1d", check_rows, strategy=strat_rows, examples={"quick": 800, "thorough": 2500}, shards={"quick": 4, "thorough": 16}),
    SubCheck("grid_symmetries", check_sym, strategy=strat_sym, examples={"quick": 1000, "thorough": 2500}, shards={"quick": 4, "thorough": 16}),
]

META = dict(
    level_text="Generated search: (a) 1-D profiles tiled along either grid direction, with or without a uniform transverse velocity, all in-line boundary types on either end, both "
               "fluxes and both reconstruction families - every cell of the 2-D residual compared with the 1-D operator; (b) random 2-D data with any boundary tag per side - residual "
               "compared with its transposed / reflected counterpart. Exploration only.",
    level_note="trusted: numpy; flowdyn's 1-D operator as reference for (a) (itself decided by C01-C03, C11, C16); tolerances 1e-11 / 1e-12 x flux scale / cell size",
    technique="property-based testing (Hypothesis given): differential 2-D vs 1-D operator + metamorphic grid symmetries",
)
