"""Independent reference implementations (oracles).  Written from the conservation laws and
textbook definitions, never by calling the flowdyn code path they judge."""
import math

import numpy as np


# ----------------------------------------------------------------------------- ideal gas
def gas_vars(gamma, rho, vel, p):
    """dictionary of named ideal-gas quantities from primitive variables.
    vel: (n,) in 1-D or (2,n) in 2-D"""
    rho = np.asarray(rho, dtype=float)
    p = np.asarray(p, dtype=float)
    vel = np.asarray(vel, dtype=float)
    v2 = vel ** 2 if vel.ndim == 1 else vel[0] ** 2 + vel[1] ** 2
    c2 = gamma * p / rho
    h = gamma / (gamma - 1.0) * p / rho
    m2 = v2 / c2
    out = dict(density=rho, pressure=p, velocity=vel, velocitymag=np.sqrt(v2), kinetic_energy=0.5 * rho * v2,
               asound=np.sqrt(c2), mach2=m2, enthalpy=h, htot=h + 0.5 * v2, rttot=(gamma - 1.0) / gamma * (h + 0.5 * v2),
               ptot=p * (1.0 + 0.5 * (gamma - 1.0) * m2) ** (gamma / (gamma - 1.0)),
               entropy=(np.log(p) - gamma * np.log(rho)) / (gamma - 1.0))
    out["kinetic-energy"] = out["kinetic_energy"]
    if vel.ndim == 2:
        out["velocity_x"], out["velocity_y"] = vel[0], vel[1]
    return out


# ----------------------------------------------------------------------------- physical fluxes
def flux_convection(a, u):
    return [a * np.asarray(u, dtype=float)]


def flux_burgers(u):
    return [0.5 * np.asarray(u, dtype=float) ** 2]


def flux_sw(g, h, u):
    h = np.asarray(h, dtype=float)
    u = np.asarray(u, dtype=float)
    return [h * u, h * u * u + 0.5 * g * h * h]


def flux_euler1d(gamma, rho, u, p):
    rho, u, p = (np.asarray(x, dtype=float) for x in (rho, u, p))
    E = p / (gamma - 1.0) + 0.5 * rho * u * u
    return [rho * u, rho * u * u + p, u * (E + p)]


def flux_euler2d(gamma, rho, V, p, nrm):
    """flux through a face of unit normal nrm (2,) or (2,n); V (2,n).  returns [mass, (2,n) momentum, energy]"""
    rho, p = np.asarray(rho, dtype=float), np.asarray(p, dtype=float)
    V = np.asarray(V, dtype=float)
    nrm = np.asarray(nrm, dtype=float)
    if nrm.ndim == 1:
        nrm = nrm[:, None] * np.ones_like(rho)[None, :]
    un = V[0] * nrm[0] + V[1] * nrm[1]
    E = p / (gamma - 1.0) + 0.5 * rho * (V[0] ** 2 + V[1] ** 2)
    return [rho * un, np.vstack([rho * un * V[0] + p * nrm[0], rho * un * V[1] + p * nrm[1]]), un * (E + p)]


# ----------------------------------------------------------------------------- exact Riemann solver (Toro, ch. 4)
class ExactRiemann(object):
    def __init__(self, gamma, left, right):
        self.g = gamma
        self.rl, self.ul, self.pl = [float(x) for x in left]
        self.rr, self.ur, self.pr = [float(x) for x in right]
        self.cl = math.sqrt(gamma * self.pl / self.rl)
        self.cr = math.sqrt(gamma * self.pr / self.rr)
        if 2.0 / (gamma - 1.0) * (self.cl + self.cr) <= self.ur - self.ul:
            raise ValueError("vacuum generated")
        self._star()

    def _f(self, p, rk, pk, ck):
        g = self.g
        if p > pk:  # shock
            A = 2.0 / ((g + 1.0) * rk)
            B = (g - 1.0) / (g + 1.0) * pk
            f = (p - pk) * math.sqrt(A / (p + B))
            df = math.sqrt(A / (B + p)) * (1.0 - 0.5 * (p - pk) / (B + p))
        else:       # rarefaction
            f = 2.0 * ck / (g - 1.0) * ((p / pk) ** ((g - 1.0) / (2.0 * g)) - 1.0)
            df = 1.0 / (rk * ck) * (p / pk) ** (-(g + 1.0) / (2.0 * g))
        return f, df

    def _star(self):
        g = self.g
        du = self.ur - self.ul
        # two-rarefaction initial guess (always positive)
        z = (g - 1.0) / (2.0 * g)
        p = ((self.cl + self.cr - 0.5 * (g - 1.0) * du) / (self.cl / self.pl ** z + self.cr / self.pr ** z)) ** (1.0 / z)
        p = max(p, 1e-12 * min(self.pl, self.pr))
        for _ in range(200):
            fl, dfl = self._f(p, self.rl, self.pl, self.cl)
            fr, dfr = self._f(p, self.rr, self.pr, self.cr)
            pn = p - (fl + fr + du) / (dfl + dfr)
            if pn <= 0:
                pn = 0.1 * p
            if abs(pn - p) <= 1e-15 * (pn + p):
                p = pn
                break
            p = pn
        fl, _ = self._f(p, self.rl, self.pl, self.cl)
        fr, _ = self._f(p, self.rr, self.pr, self.cr)
        self.ps = p
        self.us = 0.5 * (self.ul + self.ur) + 0.5 * (fr - fl)

    def wave_speeds(self):
        """(leftmost, contact, rightmost) speeds"""
        g = self.g
        if self.ps > self.pl:
            sl = self.ul - self.cl * math.sqrt((g + 1.0) / (2.0 * g) * self.ps / self.pl + (g - 1.0) / (2.0 * g))
        else:
            sl = self.ul - self.cl
        if self.ps > self.pr:
            sr = self.ur + self.cr * math.sqrt((g + 1.0) / (2.0 * g) * self.ps / self.pr + (g - 1.0) / (2.0 * g))
        else:
            sr = self.ur + self.cr
        return sl, self.us, sr

    def pattern(self):
        return ("S" if self.ps > self.pl else "R") + ("S" if self.ps > self.pr else "R")

    def sample(self, xi):
        """primitive solution at similarity coordinates xi = x/t (array)"""
        xi = np.asarray(xi, dtype=float)
        rho = np.empty_like(xi)
        u = np.empty_like(xi)
        p = np.empty_like(xi)
        for i, s in enumerate(xi):
            rho[i], u[i], p[i] = self._sample1(float(s))
        return rho, u, p

    def _sample1(self, s):
        g = self.g
        ps, us = self.ps, self.us
        if s <= us:   # left of contact
            rk, uk, pk, ck = self.rl, self.ul, self.pl, self.cl
            if ps > pk:
                q = ps / pk
                S = uk - ck * math.sqrt((g + 1.0) / (2.0 * g) * q + (g - 1.0) / (2.0 * g))
                if s <= S:
                    return rk, uk, pk
                return rk * (q + (g - 1.0) / (g + 1.0)) / ((g - 1.0) / (g + 1.0) * q + 1.0), us, ps
            sh = uk - ck
            if s <= sh:
                return rk, uk, pk
            cs = ck * (ps / pk) ** ((g - 1.0) / (2.0 * g))
            st = us - cs
            if s > st:
                return rk * (ps / pk) ** (1.0 / g), us, ps
            c = 2.0 / (g + 1.0) * (ck + 0.5 * (g - 1.0) * (uk - s))
            return rk * (c / ck) ** (2.0 / (g - 1.0)), 2.0 / (g + 1.0) * (ck + 0.5 * (g - 1.0) * uk + s), pk * (c / ck) ** (2.0 * g / (g - 1.0))
        rk, uk, pk, ck = self.rr, self.ur, self.pr, self.cr
        if ps > pk:
            q = ps / pk
            S = uk + ck * math.sqrt((g + 1.0) / (2.0 * g) * q + (g - 1.0) / (2.0 * g))
            if s >= S:
                return rk, uk, pk
            return rk * (q + (g - 1.0) / (g + 1.0)) / ((g - 1.0) / (g + 1.0) * q + 1.0), us, ps
        sh = uk + ck
        if s >= sh:
            return rk, uk, pk
        cs = ck * (ps / pk) ** ((g - 1.0) / (2.0 * g))
        st = us + cs
        if s <= st:
            return rk * (ps / pk) ** (1.0 / g), us, ps
        c = 2.0 / (g + 1.0) * (ck - 0.5 * (g - 1.0) * (uk - s))
        return rk * (c / ck) ** (2.0 / (g - 1.0)), 2.0 / (g + 1.0) * (-ck + 0.5 * (g - 1.0) * uk + s), pk * (c / ck) ** (2.0 * g / (g - 1.0))


# ----------------------------------------------------------------------------- Runge-Kutta reference
def rk_step(A, b, c, f, t, y, dt):
    """generic explicit RK step with Butcher tableau (A strictly lower triangular)"""
    s = len(b)
    ks = []
    for i in range(s):
        yi = np.array(y, dtype=float, copy=True)
        for j in range(i):
            if A[i][j] != 0.0:
                yi = yi + dt * A[i][j] * ks[j]
        ks.append(np.asarray(f(t + c[i] * dt, yi), dtype=float))
    out = np.array(y, dtype=float, copy=True)
    for i in range(s):
        out = out + dt * b[i] * ks[i]
    return out


def rk_order_conditions(A, b, c, order):
    """residuals of the rooted-tree order conditions up to `order` (<=4); dict name -> residual"""
    A = np.asarray(A, dtype=float)
    b = np.asarray(b, dtype=float)
    c = np.asarray(c, dtype=float)
    res = {}
    if order >= 1:
        res["sum b = 1"] = b.sum() - 1.0
    if order >= 2:
        res["b.c = 1/2"] = b @ c - 0.5
    if order >= 3:
        res["b.c^2 = 1/3"] = b @ c ** 2 - 1.0 / 3.0
        res["b.A.c = 1/6"] = b @ A @ c - 1.0 / 6.0
    if order >= 4:
        res["b.c^3 = 1/4"] = b @ c ** 3 - 0.25
        res["b.(c*A.c) = 1/8"] = b @ (c * (A @ c)) - 0.125
        res["b.A.c^2 = 1/12"] = b @ A @ c ** 2 - 1.0 / 12.0
        res["b.A.A.c = 1/24"] = b @ A @ A @ c - 1.0 / 24.0
    return res


def stability_polynomial(A, b):
    """coefficients gamma_k = b A^(k-1) 1 of R(z) = 1 + sum gamma_k z^k"""
    A = np.asarray(A, dtype=float)
    b = np.asarray(b, dtype=float)
    s = len(b)
    v = np.ones(s)
    out = []
    for _ in range(s):
        out.append(float(b @ v))
        v = A @ v
    return out


def ssp_coefficient(A, b, tol=1e-12):
    """Kraaijevanger radius of absolute monotonicity of an explicit RK method (bisection on r)"""
    A = np.asarray(A, dtype=float)
    b = np.asarray(b, dtype=float)
    s = len(b)
    K = np.zeros((s + 1, s + 1))
    K[:s, :s] = A
    K[s, :s] = b
    e = np.ones(s + 1)

    def ok(r):
        M = np.eye(s + 1) + r * K
        try:
            Minv = np.linalg.inv(M)
        except np.linalg.LinAlgError:
            return False
        P = r * K @ Minv
        q = Minv @ e
        return bool(np.all(P >= -tol) and np.all(q >= -tol))
    if not ok(0.0) or not ok(1e-9):
        return 0.0
    lo, hi = 0.0, 4.0
    if ok(hi):
        return hi
    for _ in range(60):
        mid = 0.5 * (lo + hi)
        if ok(mid):
            lo = mid
        else:
            hi = mid
    return lo


# ----------------------------------------------------------------------------- dense linear algebra
def dense_solve(M, b):
    """reference solution of M x = b by Householder QR (unconditionally backward stable).  LU with partial pivoting is NOT used as an oracle: its element
    growth is exponential in the size for the band matrices of upwind-biased 4-point stencils (defect D19)."""
    import scipy.linalg as sl
    q, r = np.linalg.qr(np.asarray(M, dtype=float))
    return sl.solve_triangular(r, q.T @ np.asarray(b, dtype=float))
