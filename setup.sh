#!/bin/bash
# Offline setup: make sure hypothesis/numpy/scipy are importable by /venv/bin/python.
# They are pre-installed in /venv in this image; if not, install from the offline wheelhouse
# into /verif/.deps (never touches /repo, never needs the network).
here="$(cd "$(dirname "${BASH_SOURCE[0]}")" && pwd)"
cd "$here" || exit 2
PY="${VERIF_PYTHON:-/venv/bin/python}"
export PIP_NO_INDEX=1
need=""
for m in hypothesis numpy scipy; do
    PYTHONPATH="$here/.deps" "$PY" -c "import $m" >/dev/null 2>&1 || need="$need $m"
done
if [ -n "$need" ]; then
    echo "installing$need from /opt/veriftools/wheels into $here/.deps"
    "$PY" -m pip install --no-index --find-links /opt/veriftools/wheels --target "$here/.deps" $need || exit 2
fi
PYTHONPATH="$here/.deps" "$PY" -c "import hypothesis, numpy, scipy; print('setup ok: hypothesis', hypothesis.__version__, 'numpy', numpy.__version__)" || exit 2
mkdir -p evidence replays
exit 0
